"""C16 — triangulations tile exactly the right region and are Delaunay; Voronoi cells.

proof:   coq/theories/C16/*.v, Properties_C16.v
         (in-circle laws; GEOS expression = -incircle; checker soundness clause by clause; edge-manifold + boundary cycle =>
         area identity; separating-edge test => interior-disjoint; Voronoi vertex test suffices for convex cells;
         isInCircleRobust on binary64: sound on the 2^25 grid, NOT complete (error band) — refutation witness)
tie G:   translator units TP_isInCircleRobust / TP_isInCircleNonRobust (translator/units/C16.py), generated
         definitions proved equal to the hand model C16/B64Defs.v
tie M:   the extracted quad-edge model (C16/QuadEdgeDefs.v: makeEdge / splice / connect / swap / remove as state machine) runs beside
         real QuadEdge / QuadEdgeSubdivision objects (harness/c16_quadedge.cpp) on generated operation histories (mode H).
tie M/R: the extracted checkers (ocaml/drv_C16.ml) judge the outputs of GEOSDelaunayTriangulation_r (triangles + edges,
         tolerance 0 and > 0), GEOSConstrainedDelaunayTriangulation_r and GEOSVoronoiDiagram_r (harness/c16.cpp); the extracted
         binary64 model of isInCircleRobust runs bit for bit beside TrianglePredicate (mode P).
"""
import math, os, struct, random
from vlib.core import ROOT, BUILD

LIM = 2 ** 25
ULPS = 8          # accepted displacement of a Voronoi vertex, in units in the last place of the envelope magnitude


# ================================================================================================ small helpers
def det(a, b, c):
    return (b[0] - a[0]) * (c[1] - a[1]) - (b[1] - a[1]) * (c[0] - a[0])


def hexd(d):
    return '%016x' % struct.unpack('<Q', struct.pack('<d', d))[0]


def unhex(s):
    return struct.unpack('<d', struct.pack('<Q', int(s, 16)))[0]


def egcd(a, b):
    if b == 0:
        return (a, 1, 0)
    g, x, y = egcd(b, a % b)
    return (g, y, x - (a // b) * y)


def in_bound(pts):
    return all(abs(x) <= LIM and abs(y) <= LIM for x, y in pts)


def clampshift(rng, pts, big=False):
    """translate by a random lattice vector keeping every ordinate within the 2^25 bound"""
    if not pts:
        return pts
    xs = [p[0] for p in pts]; ys = [p[1] for p in pts]
    lox, hix = -LIM - min(xs), LIM - max(xs)
    loy, hiy = -LIM - min(ys), LIM - max(ys)
    if lox > hix or loy > hiy:
        return None
    mode = rng.random()
    if mode < 0.35 and not big:
        return pts
    if mode < 0.55:     # push against a corner of the admissible square
        dx = rng.choice([lox, hix]); dy = rng.choice([loy, hiy])
    else:
        dx = rng.randint(lox, hix); dy = rng.randint(loy, hiy)
    return [(x + dx, y + dy) for x, y in pts]


def symmetry(rng, pts):
    k = rng.randint(0, 7)
    out = []
    for x, y in pts:
        if k & 1: x = -x
        if k & 2: y = -y
        if k & 4: x, y = y, x
        out.append((x, y))
    return out


# ================================================================================================ site generators
def lattice_circle(N):
    """all lattice points with x^2+y^2 = N (N small enough to scan)"""
    pts = []
    x = 0
    while x * x <= N:
        y2 = N - x * x; y = math.isqrt(y2)
        if y * y == y2:
            for sx in (1, -1):
                for sy in (1, -1):
                    pts.append((sx * x, sy * y))
        x += 1
    return sorted(set(pts))


def gauss_circle(rng, target_bits):
    """points on a circle x^2+y^2 = N with many representations: products of Gaussian integers of primes = 1 mod 4"""
    primes = [(1, 2), (2, 3), (1, 4), (2, 5), (1, 6), (4, 5), (2, 7), (5, 6), (3, 8), (5, 8), (4, 9), (1, 10), (3, 10), (7, 8), (4, 11)]
    facs = []
    n = 1
    while True:
        a, b = rng.choice(primes)
        if (n * (a * a + b * b)).bit_length() > target_bits:
            break
        facs.append((a, b)); n *= a * a + b * b
        if len(facs) >= 12:
            break
    reps = {(1, 0)}
    for a, b in facs:
        nxt = set()
        for x, y in reps:
            nxt.add((x * a - y * b, x * b + y * a))      # times (a+bi)
            nxt.add((x * a + y * b, -x * b + y * a))     # times (a-bi)
        reps = nxt
    pts = set()
    for x, y in reps:
        for u, v in ((x, y), (-x, y), (x, -y), (-x, -y), (y, x), (-y, x), (y, -x), (-y, -x)):
            pts.add((u, v))
    return sorted(pts)


def concentric_pair(rng, mag_bits=None):
    """P=(a,b), T=(c,d) with a^2+b^2 - (c^2+d^2) = k for a small k >= 1 : T lies strictly inside the lattice circle through
    the eight images of P, by a power of only k square units — inside the error band of isInCircleRobust when |P| >= ~2^23."""
    for _ in range(200):
        k = rng.choice([1, 1, 2, 3, 4, 5, 7, 8, 12, 16, 24, 40, 100, 1000])
        m = rng.randint(1, 3000); n = rng.randint(1, 3000)
        if (n * n - m * m + k) % 2:
            continue
        g, u, v = egcd(m, n)
        if g != 1:
            continue
        h = (n * n - m * m + k) // 2
        # m*c - n*b = h :  c = h*u + n*s, b = -(h*v) + m*s   (m*u + n*v = 1)
        c0, b0 = h * u, -h * v
        bits = mag_bits or rng.choice([25, 25, 25, 24, 24, 23, 22, 20, 16, 12])
        tgt = rng.randint(2 ** (bits - 1), 2 ** bits - 1) * 7 // 10
        s = (tgt - c0) // n if rng.random() < 0.5 else (tgt - b0) // m
        c, b = c0 + n * s, b0 + m * s
        a, d = c + m, b + n
        if a * a + b * b - c * c - d * d != k:
            continue
        if max(abs(a), abs(b), abs(c), abs(d)) > LIM or min(abs(a), abs(b)) == 0:
            continue
        return (a, b), (c, d), k
    return None


def images(p):
    x, y = p
    return sorted({(x, y), (-x, y), (x, -y), (-x, -y), (y, x), (-y, x), (y, -x), (-y, -x)})


def gen_sites(rng, fam, quick):
    """returns (family, list of integer sites) — duplicates allowed"""
    nmax = 28 if quick else 60
    if fam == 'tiny':
        n = rng.choice([1, 1, 2, 2, 3, 3, 4])
        R = rng.choice([1, 2, 5, 1000, LIM])
        return [(rng.randint(-R, R), rng.randint(-R, R)) for _ in range(n)]
    if fam == 'random':
        R = rng.choice([2, 3, 5, 8, 20, 100, 10 ** 4, 10 ** 6, LIM])
        n = rng.randint(3, nmax)
        return [(rng.randint(-R, R), rng.randint(-R, R)) for _ in range(n)]
    if fam == 'grid':          # dense lattice patch: every unit square is a cocircular quadruple
        w, h = rng.randint(2, 6), rng.randint(2, 6)
        s = rng.choice([1, 1, 2, 3, 1000, 2 ** 22])
        pts = [(x * s, y * s) for x in range(w) for y in range(h)]
        rng.shuffle(pts)
        return pts[:rng.randint(max(3, len(pts) // 2), len(pts))]
    if fam == 'collinear':     # all sites on one line
        a, b = rng.choice([(1, 0), (0, 1), (1, 1), (2, 1), (-3, 5), (rng.randint(1, 99), rng.randint(-99, 99))])
        n = rng.randint(2, 9); R = rng.choice([3, 10, 1000, LIM // 100])
        return [(a * t, b * t) for t in (rng.randint(-R, R) for _ in range(n))]
    if fam == 'runs':          # collinear runs plus a few points off the line(s), hull edges carrying many sites
        pts = []
        for _ in range(rng.randint(1, 3)):
            a, b = rng.choice([(1, 0), (0, 1), (1, 1), (1, -1), (2, 1), (1, 3), (rng.randint(1, 9), rng.randint(-9, 9))])
            ox, oy = rng.randint(-20, 20), rng.randint(-20, 20)
            for _ in range(rng.randint(3, 8)):
                t = rng.randint(-12, 12); pts.append((ox + a * t, oy + b * t))
        for _ in range(rng.randint(0, 4)):
            pts.append((rng.randint(-25, 25), rng.randint(-25, 25)))
        s = rng.choice([1, 1, 1, 7, 2 ** 10, 2 ** 17])
        return [(x * s, y * s) for x, y in pts]
    if fam == 'hullrect':      # rectangle / triangle boundary densely sampled + interior points: collinear hull runs
        w, h = rng.randint(2, 9), rng.randint(2, 9)
        pts = [(x, 0) for x in range(w + 1)] + [(x, h) for x in range(w + 1)] + [(0, y) for y in range(h + 1)] + [(w, y) for y in range(h + 1)]
        pts = [p for p in pts if rng.random() < 0.8] + [(0, 0), (w, h)]
        pts += [(rng.randint(0, w), rng.randint(0, h)) for _ in range(rng.randint(0, 6))]
        s = rng.choice([1, 1, 3, 2 ** 12, 2 ** 21])
        return [(x * s, y * s) for x, y in pts]
    if fam == 'circle':        # lattice circle (cocircular), optionally with its centre and interior / exterior points
        if rng.random() < 0.5:
            N = rng.choice([25, 50, 65, 85, 125, 130, 325, 425, 650, 1105, 5525, 27625, 32045])
            pts = lattice_circle(N)
        else:
            pts = gauss_circle(rng, rng.choice([20, 30, 40, 48, 50]))
        pts = [p for p in pts if in_bound([p])]
        rng.shuffle(pts)
        pts = pts[:rng.randint(4, min(len(pts), nmax))] if len(pts) >= 4 else pts
        r = max(abs(p[0]) for p in pts) if pts else 1
        if rng.random() < 0.4: pts.append((0, 0))
        for _ in range(rng.randint(0, 3)):
            pts.append((rng.randint(-r, r), rng.randint(-r, r)))
        return pts
    if fam == 'concentric':    # the error band of the in-circle predicate: two lattice circles whose squared radii differ by k
        cp = concentric_pair(rng)
        if cp is None:
            return gen_sites(rng, 'circle', quick)
        P, T, k = cp
        ps = images(P)
        rng.shuffle(ps)
        pts = ps[:rng.randint(3, len(ps))]
        ts = images(T); rng.shuffle(ts)
        pts += ts[:rng.choice([1, 1, 1, 2, 3, len(ts)])]
        if rng.random() < 0.2: pts.append((0, 0))
        if rng.random() < 0.2:
            r = max(abs(P[0]), abs(P[1]))
            pts += [(rng.randint(-r, r), rng.randint(-r, r)) for _ in range(rng.randint(1, 4))]
        return pts
    if fam == 'thin':          # near-collinear sites along a steep diagonal at large magnitude (thin triangles, huge circumcircles)
        M = rng.choice([LIM, LIM, LIM // 8, 2 ** 16])
        a = rng.randint(M // 2, M); b = rng.randint(M // 2, M) * rng.choice([1, -1])
        n = rng.randint(4, 10); off = rng.choice([1, 1, 2, 3, 10, 1000])
        pts = []
        for _ in range(n):
            t = rng.uniform(-1, 1)
            pts.append((max(-LIM, min(LIM, int(t * a) + rng.randint(-off, off))), max(-LIM, min(LIM, int(t * b) + rng.randint(-off, off)))))
        return pts
    if fam == 'cluster':       # far-apart tight clusters, with exact duplicates
        pts = []
        R = rng.choice([1000, 10 ** 6, LIM - 10])
        for _ in range(rng.randint(2, 5)):
            cx, cy = rng.randint(-R, R), rng.randint(-R, R)
            for _ in range(rng.randint(1, 6)):
                pts.append((max(-LIM, min(LIM, cx + rng.randint(-2, 2))), max(-LIM, min(LIM, cy + rng.randint(-2, 2)))))
        pts += [rng.choice(pts) for _ in range(rng.randint(0, 4))]
        return pts
    if fam == 'dups':
        base = gen_sites(rng, rng.choice(['random', 'grid', 'runs']), quick)
        return base + [rng.choice(base) for _ in range(rng.randint(1, 6))]
    if fam == 'large':         # bigger random sets (fewer of them)
        R = rng.choice([30, 1000, LIM]); n = rng.randint(60, 120 if quick else 160)
        return [(rng.randint(-R, R), rng.randint(-R, R)) for _ in range(n)]
    raise ValueError(fam)


SITE_FAMILIES = ['tiny', 'random', 'random', 'grid', 'collinear', 'runs', 'hullrect', 'circle', 'concentric', 'concentric',
                 'thin', 'cluster', 'dups']


def make_site_case(rng, quick, fams=SITE_FAMILIES):
    for _ in range(50):
        fam = rng.choice(fams)
        pts = gen_sites(rng, fam, quick)
        if not pts:
            continue
        if fam not in ('concentric', 'circle') or rng.random() < 0.5:
            pts = symmetry(rng, pts)
        if fam in ('concentric', 'circle', 'thin'):
            sh = clampshift(rng, pts) if rng.random() < 0.4 else pts
        else:
            sh = clampshift(rng, pts, big=rng.random() < 0.3)
        if sh is None or not in_bound(sh):
            continue
        return fam, sh
    return 'tiny', [(0, 0), (1, 0), (0, 1)]


def min_dist2(pts):
    u = sorted(set(pts)); best = None
    for i in range(len(u)):
        for j in range(i + 1, len(u)):
            d = (u[i][0] - u[j][0]) ** 2 + (u[i][1] - u[j][1]) ** 2
            if best is None or d < best:
                best = d
    return best


def pick_tolerance(rng, pts):
    """(tolnum, regime): 0 none | 'sub' below the minimum site distance (nothing may be merged) | 'merge' (sites may be merged)"""
    r = rng.random()
    if r < 0.68:
        return 0, 'zero'
    md = min_dist2(pts)
    if md is None:
        return rng.choice([1, 2]), 'merge'
    if r < 0.84:
        t = math.isqrt(md)
        if t * t == md: t -= 1
        if t >= 1:
            return rng.choice([1, max(1, t // 2), t]), 'sub'
        return 0, 'zero'
    xs = [p[0] for p in pts]; ext = max(1, max(xs) - min(xs))
    return rng.choice([1, 2, 3, max(1, ext // 20), max(1, ext // 5)]), 'merge'


def sites_txt(pts):
    return ' '.join('%d %d' % p for p in pts)


# ================================================================================================ polygon generators
def pip(p, ring):
    """crossing number, strict interior (False on the boundary)"""
    n = 0
    for a, b in zip(ring, ring[1:]):
        if det(a, b, p) == 0 and min(a[0], b[0]) <= p[0] <= max(a[0], b[0]) and min(a[1], b[1]) <= p[1] <= max(a[1], b[1]):
            return False
        if (a[1] <= p[1] < b[1]) or (b[1] <= p[1] < a[1]):
            v = (b[0] - a[0]) * (p[1] - a[1]) - (p[0] - a[0]) * (b[1] - a[1])
            if (b[1] > a[1] and v > 0) or (b[1] < a[1] and v < 0):
                n += 1
    return n % 2 == 1


def convex_ring(rng, n, R):
    vecs = {}
    while len(vecs) < max(2, n // 2):
        a, b = rng.randint(-R, R), rng.randint(0, R)
        if (a, b) == (0, 0) or (b == 0 and a < 0):
            continue
        g = math.gcd(abs(a), abs(b)); vecs[(a // g, b // g)] = (a, b)
    vs = list(vecs.values())
    allv = sorted(vs + [(-a, -b) for a, b in vs], key=lambda v: math.atan2(v[1], v[0]))
    x = y = 0; ring = []
    for a, b in allv:
        ring.append((x, y)); x += a; y += b
    return ring + [ring[0]]


def monotone_ring(rng, n, R):
    """x-monotone polygon: random lower and upper chains (many concave corners, flat corners when heights repeat)"""
    xs = sorted(rng.sample(range(0, max(n + 2, 3 * n)), n))
    lo = [rng.randint(-R, 0) for _ in xs]; up = [rng.randint(1, R + 1) for _ in xs]
    ring = [(x, y) for x, y in zip(xs, lo)] + [(x, y) for x, y in reversed(list(zip(xs, up)))]
    return ring + [ring[0]]


def star_ring(rng, n, R):
    angs = sorted(rng.sample(range(720), n))
    ring = []
    for a in angs:
        r = rng.randint(max(2, R // 4), R)
        p = (int(round(r * math.cos(math.radians(a / 2)))), int(round(r * math.sin(math.radians(a / 2)))))
        if not ring or ring[-1] != p:
            ring.append(p)
    if len(ring) >= 2 and ring[0] == ring[-1]:
        ring.pop()
    return ring + [ring[0]] if len(ring) >= 3 else [(0, 0), (R, 0), (0, R), (0, 0)]


def comb_ring(rng, teeth, R):
    """comb: teeth of random height on a base bar — reflex corners in a row, ears only at the tips"""
    ring = [(0, -1), (2 * teeth, -1)]
    for i in range(teeth - 1, -1, -1):
        hgt = rng.randint(1, R)
        ring += [(2 * i + 2, 0)] if False else []
        ring += [(2 * i + 1 + rng.choice([0, 0, 1]), hgt), (2 * i + 1, 0)] if rng.random() < 0.5 else [(2 * i + 2, hgt), (2 * i + 1, hgt), (2 * i + 1, 0)]
    ring.append((0, 0))
    out = [ring[0]]
    for p in ring[1:]:
        if p != out[-1]:
            out.append(p)
    return out + [out[0]]


def spiral_ring(rng, turns):
    """rectilinear spiral corridor of width 1"""
    pts_out = []; pts_in = []
    x = y = 0; L = 2 * turns + 2
    dirs = [(1, 0), (0, 1), (-1, 0), (0, -1)]
    # outer path
    cur = (0, 0); path = [cur]; l = L
    for i in range(2 * turns):
        dx, dy = dirs[i % 4]
        cur = (cur[0] + dx * l, cur[1] + dy * l); path.append(cur)
        if i % 2 == 1: l -= 2
        if l <= 0: break
    # offset path (inner wall) by walking back with width 1: build polygon as thick polyline via simple offsetting
    ring = []
    left = []; right = []
    for i in range(len(path) - 1):
        a, b = path[i], path[i + 1]
        dx = (b[0] > a[0]) - (b[0] < a[0]); dy = (b[1] > a[1]) - (b[1] < a[1])
        nx, ny = -dy, dx
        left.append(((a[0] + nx, a[1] + ny), (b[0] + nx, b[1] + ny)))
    # corridor = path side and the side shifted by the left normal, joined at corners
    inner = [left[0][0]]
    for i in range(len(left) - 1):
        # corner between segment i and i+1 on the left side: intersection of the two offset lines
        (a1, b1), (a2, b2) = left[i], left[i + 1]
        if a1[0] == b1[0]: inner.append((a1[0], a2[1]))
        else: inner.append((a2[0], a1[1]))
    inner.append(left[-1][1])
    ring = path + inner[::-1]
    out = [ring[0]]
    for p in ring[1:]:
        if p != out[-1]: out.append(p)
    return out + [out[0]]


def add_flat_vertices(rng, ring):
    """insert lattice points lying on edges (flat corners)"""
    out = []
    for a, b in zip(ring, ring[1:]):
        out.append(a)
        g = math.gcd(abs(b[0] - a[0]), abs(b[1] - a[1]))
        if g > 1 and rng.random() < 0.4:
            ks = sorted(rng.sample(range(1, g), min(g - 1, rng.randint(1, 2))))
            for k in ks:
                out.append((a[0] + (b[0] - a[0]) // g * k, a[1] + (b[1] - a[1]) // g * k))
    return out + [out[0]]


def scale_ring(r, s):
    return [(x * s, y * s) for x, y in r]


def segs_conflict(a, b, c, d):
    """the closed segments ab and cd cross properly or overlap in more than a point"""
    d1, d2, d3, d4 = det(a, b, c), det(a, b, d), det(c, d, a), det(c, d, b)
    if ((d1 > 0 and d2 < 0) or (d1 < 0 and d2 > 0)) and ((d3 > 0 and d4 < 0) or (d3 < 0 and d4 > 0)):
        return True
    if d1 == 0 and d2 == 0 and d3 == 0 and d4 == 0:
        k = 0 if a[0] != b[0] else 1
        lo1, hi1 = min(a[k], b[k]), max(a[k], b[k]); lo2, hi2 = min(c[k], d[k]), max(c[k], d[k])
        return max(lo1, lo2) < min(hi1, hi2)
    return False


def gen_holes(rng, shell, want):
    """small holes inside `shell` (scaled so that there is room): free, touching the shell at a vertex / on an edge, touching
    each other at a vertex. Candidates are only pre-filtered here; validity is decided by the extracted C05 model."""
    xs = [p[0] for p in shell]; ys = [p[1] for p in shell]
    holes = []; used = []
    tries = 0
    while len(holes) < want and tries < 60:
        tries += 1
        kind = rng.choice(['free', 'free', 'vtouch', 'etouch', 'htouch', 'free_tri'])
        if kind in ('free', 'free_tri'):
            cx, cy = rng.randint(min(xs), max(xs)), rng.randint(min(ys), max(ys))
            w, h = rng.randint(1, 3), rng.randint(1, 3)
            hole = [(cx, cy), (cx + w, cy), (cx + w, cy + h), (cx, cy + h), (cx, cy)] if kind == 'free' else [(cx, cy), (cx + w, cy), (cx, cy + h), (cx, cy)]
        elif kind == 'vtouch':
            v = rng.choice(shell[:-1]); dx1, dy1, dx2, dy2 = [rng.randint(-3, 3) for _ in range(4)]
            hole = [v, (v[0] + dx1, v[1] + dy1), (v[0] + dx2, v[1] + dy2), v]
        elif kind == 'etouch':
            i = rng.randrange(len(shell) - 1); a, b = shell[i], shell[i + 1]
            g = math.gcd(abs(b[0] - a[0]), abs(b[1] - a[1]))
            if g < 2: continue
            k = rng.randint(1, g - 1); v = (a[0] + (b[0] - a[0]) // g * k, a[1] + (b[1] - a[1]) // g * k)
            dx1, dy1, dx2, dy2 = [rng.randint(-3, 3) for _ in range(4)]
            hole = [v, (v[0] + dx1, v[1] + dy1), (v[0] + dx2, v[1] + dy2), v]
        else:
            if not holes: continue
            v = rng.choice(rng.choice(holes)[:-1]); dx1, dy1, dx2, dy2 = [rng.randint(-3, 3) for _ in range(4)]
            hole = [v, (v[0] + dx1, v[1] + dy1), (v[0] + dx2, v[1] + dy2), v]
        if det(hole[0], hole[1], hole[2]) == 0:
            continue
        # every hole vertex inside or on the shell, hole centroid-ish point strictly inside, not inside another hole
        c3 = (sum(p[0] for p in hole[:3]), sum(p[1] for p in hole[:3]))
        sh3 = scale_ring(shell, 3)
        if not pip(c3, sh3): continue
        if any(pip(c3, scale_ring(h2, 3)) for h2 in holes): continue
        ok = True
        for p in hole[:-1]:
            if not (pip(p, shell) or any(det(a, b, p) == 0 and min(a[0], b[0]) <= p[0] <= max(a[0], b[0]) and min(a[1], b[1]) <= p[1] <= max(a[1], b[1]) for a, b in zip(shell, shell[1:]))):
                ok = False; break
        if ok:
            for ring in [shell] + holes:
                if any(segs_conflict(a, b, c, d) for a, b in zip(hole, hole[1:]) for c, d in zip(ring, ring[1:])):
                    ok = False; break
        if ok:
            holes.append(hole)
    return holes


def gen_polygon(rng, quick):
    fam = rng.choice(['convex', 'monotone', 'monotone', 'star', 'comb', 'spiral', 'rect', 'tri', 'holes', 'holes', 'holes', 'holetree', 'bigthin',
                      'pinch', 'pinch', 'pinch', 'pinch', 'pinch', 'pinch'])
    sc = 1
    if fam == 'convex': shell = convex_ring(rng, rng.randint(3, 12), rng.choice([3, 10, 1000]))
    elif fam == 'monotone': shell = monotone_ring(rng, rng.randint(3, 14 if quick else 30), rng.choice([2, 5, 50]))
    elif fam == 'star': shell = star_ring(rng, rng.randint(4, 16), rng.choice([5, 20, 1000]))
    elif fam == 'comb': shell = comb_ring(rng, rng.randint(2, 8), rng.choice([2, 5, 100]))
    elif fam == 'spiral': shell = spiral_ring(rng, rng.randint(2, 5))
    elif fam == 'rect': w, h = rng.randint(1, 9), rng.randint(1, 9); shell = [(0, 0), (w, 0), (w, h), (0, h), (0, 0)]
    elif fam == 'tri': shell = [(0, 0), (rng.randint(1, 9), rng.randint(-3, 3)), (rng.randint(-3, 9), rng.randint(4, 9)), (0, 0)]
    elif fam == 'pinch':       # notched box with large holes that touch the shell / each other at single points: the joined ring
        # revisits those vertices, which is where PolygonEarClipper::isValidEarScan decides ears (both passes, both edges)
        W, H = rng.randint(8, 15), rng.randint(8, 15)
        dent = lambda: rng.randint(0, 2) if rng.random() < 0.33 else 0
        shell = [(0, 0)]
        x = 2
        while x < W: shell.append((x, dent())); x += rng.randint(1, 4)
        shell.append((W, 0)); y = 2
        while y < H: shell.append((W - dent(), y)); y += rng.randint(1, 4)
        shell.append((W, H)); x = W - 2
        while x > 0: shell.append((x, H - dent())); x -= rng.randint(1, 4)
        shell.append((0, H)); y = H - 2
        while y > 0: shell.append((dent(), y)); y -= rng.randint(1, 4)
        shell.append((0, 0))
        pinch_holes = []
        anchors = list(shell[:-1])
        for a, b in zip(shell, shell[1:]):      # lattice points inside shell edges
            g = math.gcd(abs(b[0] - a[0]), abs(b[1] - a[1]))
            anchors += [(a[0] + (b[0] - a[0]) // g * k, a[1] + (b[1] - a[1]) // g * k) for k in range(1, g)]
        for _ in range(rng.randint(1, 3)):
            for _try in range(30):
                n = rng.choice([3, 3, 4])
                hole = [(rng.randint(0, W), rng.randint(0, H)) for _ in range(n)]
                if rng.random() < 0.8:          # force a single-point contact with the shell or an earlier hole
                    pool = anchors if (not pinch_holes or rng.random() < 0.5) else [p for hh in pinch_holes for p in hh[:-1]]
                    hole[0] = rng.choice(pool)
                hole.append(hole[0])
                if len(set(hole)) != n or det(hole[0], hole[1], hole[2]) == 0: continue
                if any(segs_conflict(a, b, c, d) for a, b in zip(hole, hole[1:]) for ring in [shell] + pinch_holes for c, d in zip(ring, ring[1:])): continue
                if n == 4 and (segs_conflict(hole[0], hole[1], hole[2], hole[3]) or segs_conflict(hole[1], hole[2], hole[3], hole[0])): continue
                c3 = (sum(p[0] for p in hole[:n]) * 3 // n, sum(p[1] for p in hole[:n]) * 3 // n)
                if not pip(c3, scale_ring(shell, 3)) or any(pip(c3, scale_ring(h2, 3)) for h2 in pinch_holes): continue
                if not all(pip(p, shell) or any(on_seg(p, a, b) for a, b in zip(shell, shell[1:])) for p in hole[:-1]): continue
                pinch_holes.append(hole); break
    elif fam == 'holetree':    # a hole touching the shell, further holes touching that hole at its other vertices (tree of touching rings)
        W = rng.randint(10, 16); shell = [(0, 0), (W, 0), (W, 10), (0, 10), (0, 0)]
        ax = rng.randint(4, W - 4)
        A = [(ax, 10), (ax + rng.randint(2, 4), rng.randint(5, 7)), (ax - rng.randint(0, 1), rng.randint(3, 5)), (ax, 10)]
        if rng.random() < 0.4: A = [(ax, 9)] + A[1:3] + [(ax, 9)]          # not touching the shell after all
        Bh = [A[2], (A[2][0] - rng.randint(1, 3), A[2][1] + rng.randint(2, 4)), (A[2][0] - rng.randint(1, 3), A[2][1] + rng.randint(0, 2)), A[2]]
        Ch = [A[1], (A[1][0] + rng.randint(-1, 1), A[1][1] - rng.randint(2, 4)), (A[1][0] - rng.randint(3, 6), A[1][1] - rng.randint(3, 4)), A[1]]
        tree_holes = [A, Bh, Ch][:rng.choice([2, 3, 3])]
        rng.shuffle(tree_holes)
    elif fam == 'bigthin':     # long thin polygon at the coordinate bound along a diagonal
        a, b = rng.randint(LIM // 2, LIM), rng.randint(LIM // 2, LIM)
        n = rng.randint(2, 5); ts = sorted(rng.sample(range(-1000, 1000), 2 * n))
        lo = [(a * t // 1000, b * t // 1000 - rng.randint(1, 3)) for t in ts[:n] + ts[n:]]
        lo = sorted(set(lo))
        up = [(x + rng.randint(0, 1), y + rng.randint(4, 9)) for x, y in lo]
        shell = lo + up[::-1]; shell.append(shell[0])
    else:
        base = rng.choice(['rect', 'convex', 'monotone'])
        if base == 'rect': w, h = rng.randint(4, 12), rng.randint(4, 12); shell = [(0, 0), (w, 0), (w, h), (0, h), (0, 0)]
        elif base == 'convex': shell = scale_ring(convex_ring(rng, rng.randint(4, 9), 4), 3)
        else: shell = scale_ring(monotone_ring(rng, rng.randint(3, 8), 3), 3)
    if rng.random() < 0.3 and fam not in ('bigthin',):
        shell = add_flat_vertices(rng, shell)
    holes = gen_holes(rng, shell, rng.randint(1, 4)) if fam == 'holes' else tree_holes if fam == 'holetree' else pinch_holes if fam == 'pinch' else []
    if rng.random() < 0.5:
        shell = shell[::-1]
    holes = [h if rng.random() < 0.5 else h[::-1] for h in holes]
    rings = [shell] + holes
    if fam != 'bigthin':
        s = rng.choice([1, 1, 1, 2, 1000, 2 ** 18])
        rings = [scale_ring(r, s) for r in rings]
        allp = [p for r in rings for p in r]
        sh = clampshift(rng, allp, big=rng.random() < 0.3)
        if sh is None or not in_bound(sh):
            return None
        dx, dy = sh[0][0] - allp[0][0], sh[0][1] - allp[0][1]
        rings = [[(x + dx, y + dy) for x, y in r] for r in rings]
    if not in_bound([p for r in rings for p in r]):
        return None
    return fam, rings


def poly_txt(rings):
    return ' ; '.join(sites_txt(r) for r in rings)


# ================================================================================================ predicate inputs (mode P)
def py_robust(q, p, r, t):
    """the expression of isInCircleRobust in Python floats (IEEE binary64, no contraction): used ONLY to steer the generator
    towards inputs at the edge of the error band; the verdict compares the extracted Coq model with the C++ function."""
    qpx = q[0] - p[0]; qpy = q[1] - p[1]; rpx = r[0] - p[0]; rpy = r[1] - p[1]
    tpx = t[0] - p[0]; tpy = t[1] - p[1]; tqx = t[0] - q[0]; tqy = t[1] - q[1]; rqx = r[0] - q[0]; rqy = r[1] - q[1]
    qpxtpy = qpx * tpy; qpytpx = qpy * tpx; tpxtqx = tpx * tqx; tpytqy = tpy * tqy
    qpxrpy = qpx * rpy; qpyrpx = qpy * rpx; rpxrqx = rpx * rqx; rpyrqy = rpy * rqy
    d = (qpxtpy - qpytpx) * (rpxrqx + rpyrqy) - (qpxrpy - qpyrpx) * (tpxtqx + tpytqy)
    e = ((abs(qpxtpy) + abs(qpytpx)) * (abs(rpxrqx) + abs(rpyrqy)) + (abs(qpxrpy) + abs(qpyrpx)) * (abs(tpxtqx) + abs(tpytqy))) * 9.99200719823023e-16
    return (d > e) - (d < -e) + 1


def nextafter_n(x, n):
    b = struct.unpack('<q', struct.pack('<d', x))[0]
    if b < 0: b = -(b & 0x7fffffffffffffff)
    b += n
    if b < 0: b = (-b) | (1 << 63)
    return struct.unpack('<d', struct.pack('<Q', b & 0xffffffffffffffff))[0]


def gen_pred_cases(rng, n):
    """quadruples q p r t as doubles: grid points of the site families, band-edge inputs found by bisection, random bit patterns"""
    out = []
    while len(out) < n:
        k = rng.random()
        if k < 0.25:       # grid quadruples, concentric family (inside / at the band)
            cp = concentric_pair(rng)
            if cp is None: continue
            P, T, kk = cp
            ps = images(P); rng.shuffle(ps)
            quad = ps[:3] + [rng.choice(images(T))]
            rng.shuffle(quad)
            out.append(('band-grid', [float(v) for p in quad for v in p]))
        elif k < 0.45:     # band edge: move t.x between a BOUNDARY answer and a decided answer by bisection on the bit pattern
            M = rng.choice([1.0, 1e3, 2.0 ** 25, 1e9, 1e-3])
            q = (rng.uniform(-M, M), rng.uniform(-M, M)); p = (rng.uniform(-M, M), rng.uniform(-M, M)); r = (rng.uniform(-M, M), rng.uniform(-M, M))
            # circumcentre in floats, t on the circle approximately
            ax, ay, bx, by = q[0] - r[0], q[1] - r[1], p[0] - r[0], p[1] - r[1]
            den = 2 * (ax * by - ay * bx)
            if den == 0: continue
            ux = r[0] + (by * (ax * ax + ay * ay) - ay * (bx * bx + by * by)) / den
            uy = r[1] + (ax * (bx * bx + by * by) - bx * (ax * ax + ay * ay)) / den
            rad = math.hypot(q[0] - ux, q[1] - uy); ang = rng.uniform(0, 2 * math.pi)
            t_on = (ux + rad * math.cos(ang), uy + rad * math.sin(ang))
            t_off = (ux + rad * 1.001 * math.cos(ang), t_on[1])
            if not all(map(math.isfinite, t_on + t_off)): continue
            lo, hi = t_on[0], t_off[0]
            if py_robust(q, p, r, (lo, t_on[1])) == py_robust(q, p, r, (hi, t_on[1])): continue
            vlo = py_robust(q, p, r, (lo, t_on[1]))
            for _ in range(80):
                mid = (lo + hi) / 2
                if mid == lo or mid == hi: break
                if py_robust(q, p, r, (mid, t_on[1])) == vlo: lo = mid
                else: hi = mid
            for dlt in (-2, -1, 0, 1, 2, 3):
                out.append(('band-edge', [q[0], q[1], p[0], p[1], r[0], r[1], nextafter_n(lo, dlt), t_on[1]]))
        elif k < 0.65:     # small integers / grid families
            R = rng.choice([2, 5, 100, 2 ** 25])
            out.append(('grid', [float(rng.randint(-R, R)) for _ in range(8)]))
        elif k < 0.8:      # scaled grid (common power of two), including subnormal-free tiny and huge scales
            R = rng.choice([3, 100, 2 ** 25]); e = rng.choice([-600, -100, -30, -1, 1, 30, 100, 200])
            out.append(('scaled', [math.ldexp(float(rng.randint(-R, R)), e) for _ in range(8)]))
        elif k < 0.92:     # arbitrary finite doubles of moderate exponent
            out.append(('random', [rng.uniform(-1, 1) * 10 ** rng.randint(-8, 8) for _ in range(8)]))
        else:              # raw bit patterns: huge / tiny / special values (overflow to infinity, NaN propagate identically)
            vals = []
            for _ in range(8):
                c = rng.random()
                if c < 0.7: vals.append(struct.unpack('<d', struct.pack('<Q', rng.getrandbits(64)))[0])
                else: vals.append(rng.choice([0.0, -0.0, 1e308, -1e308, 5e-324, float('inf'), float('-inf'), float('nan'), 1.0, 2.0 ** 52]))
            out.append(('bits', vals))
    return out[:n]


# ================================================================================================ quad-edge histories (mode H)
class QESim:
    """pointer tables mirroring QuadEdge.cpp — used ONLY to steer the history generator (which ring an edge is on, which
    edges are interior / bridges); the verdict compares the extracted Coq model with the real QuadEdge objects."""
    INIT = {0: 0, 1: 3, 2: 2, 3: 1}

    def __init__(self):
        self.n = 0; self.nxt = {}; self.org = {}; self.dead = set()

    rot = staticmethod(lambda e: (e[0], (e[1] + 1) % 4))
    inv = staticmethod(lambda e: (e[0], (e[1] + 3) % 4))
    sym = staticmethod(lambda e: (e[0], (e[1] + 2) % 4))

    def on(self, e): return self.nxt[e]
    def oprev(self, e): return self.rot(self.on(self.rot(e)))
    def lnext(self, e): return self.rot(self.on(self.inv(e)))

    def make(self, o, d):
        q = self.n; self.n += 1
        for r in range(4):
            self.nxt[(q, r)] = (q, self.INIT[r]); self.org[(q, r)] = 0
        self.org[(q, 0)] = o; self.org[(q, 2)] = d
        return (q, 0)

    def splice(self, a, b):
        al = self.rot(self.on(a)); be = self.rot(self.on(b))
        t1, t2, t3, t4 = self.on(b), self.on(a), self.on(be), self.on(al)
        self.nxt[a] = t1; self.nxt[b] = t2; self.nxt[al] = t3; self.nxt[be] = t4

    def connect(self, a, b):
        q0 = self.make(self.org[self.sym(a)], self.org[b])
        self.splice(q0, self.lnext(a)); self.splice(self.sym(q0), b)
        return q0

    def swap(self, e):
        a = self.oprev(e); b = self.oprev(self.sym(e))
        self.splice(e, a); self.splice(self.sym(e), b)
        self.splice(e, self.lnext(a)); self.splice(self.sym(e), self.lnext(b))
        self.org[e] = self.org[self.sym(a)]; self.org[self.sym(e)] = self.org[self.sym(b)]

    def remove(self, e):
        self.splice(e, self.oprev(e)); self.splice(self.sym(e), self.oprev(self.sym(e)))
        self.dead.add(e[0])

    def ring(self, e):
        out = [e]; x = self.on(e)
        while x != e and len(out) < 4 * self.n + 4:
            out.append(x); x = self.on(x)
        return out

    def live_primal(self):
        return [(q, r) for q in range(self.n) if q not in self.dead for r in (0, 2)]

    def face_len(self, e):
        k = 1; x = self.lnext(e)
        while x != e and k < 4 * self.n + 4:
            k += 1; x = self.lnext(x)
        return k


def qe_edge(e): return '%d.%d' % e


def gen_qe_history(rng, st):
    """one history: (mode, [op strings], tags). Legal by construction except for a small share of deliberately illegal ops
    (dead or dual arguments), which the theorems do not cover but model and implementation must still agree on."""
    mode = rng.choice('FFE')
    sim = QESim(); ops = []; tags = set(); vid = [100]
    if mode == 'F':
        a = sim.make(1, -20); b = sim.make(-20, 22); sim.splice(sim.sym(a), b)
        c = sim.make(22, 1); sim.splice(sim.sym(b), c); sim.splice(sim.sym(c), a)

    def newv():
        vid[0] += 1; return vid[0]

    def do(kind, *es):
        if kind == 'm':
            ops.append('m %d %d' % es); sim.make(*es)
        else:
            ops.append(kind + ' ' + ' '.join(qe_edge(e) for e in es))
            {'s': sim.splice, 'c': sim.connect, 'w': sim.swap, 'x': sim.remove}[kind](*es)

    def triangle():          # as initSubdiv / the triangulator build one: two edges, splice, connect
        u, v, w = newv(), newv(), newv()
        e0 = (sim.n, 0); do('m', u, v); e1 = (sim.n, 0); do('m', v, w); do('s', sim.sym(e0), e1); do('c', e1, e0)
        tags.add('triangle'); return e0, e1

    def second_triangle(e1):   # a triangle on the other side of e1's successor edge: makes an interior edge
        w = newv(); e3 = (sim.n, 0); do('m', sim.org[sim.sym(e1)], w); do('s', sim.sym(e1), e3)
        return e3

    nsteps = rng.randint(3, 22)
    if rng.random() < 0.6:
        e0, e1 = triangle()
        if rng.random() < 0.7:
            e2 = (e1[0] + 1, 0)                       # the edge made by connect: dest(e1) -> orig(e0)
            e3 = second_triangle(e1)
            do('c', e3, sim.sym(e2)); tags.add('two-triangles')
    for _ in range(nsteps):
        lp = sim.live_primal()
        r = rng.random()
        if not lp or r < 0.16:
            if lp and rng.random() < 0.5:      # an edge hanging off an existing vertex
                a = rng.choice(lp); e = (sim.n, 0); do('m', sim.org[a], newv()); do('s', a, e); tags.add('splice-diff')
            else:
                do('m', newv(), newv())
        elif r < 0.20:
            triangle()
        elif r < 0.36:                          # splice two edges of the SAME ring (splits it)
            a = rng.choice(lp); rg = sim.ring(a)
            dual = rng.random() < 0.2
            if dual: a = sim.rot(a); rg = sim.ring(a)
            b = rng.choice(rg)
            do('s', a, b); tags.add('splice-self' if a == b else ('splice-same-dual' if dual else 'splice-same'))
        elif r < 0.52:                          # splice two edges of DIFFERENT rings (merges them)
            a = rng.choice(lp); rg = set(sim.ring(a))
            cand = [e for e in lp if e not in rg]
            if cand:
                b = rng.choice(cand)
                if rng.random() < 0.15:
                    a, b = sim.rot(a), sim.rot(b)
                    tags.add('splice-same-dual' if b in sim.ring(a) else 'splice-diff-dual')
                else:
                    tags.add('splice-diff')
                do('s', a, b)
        elif r < 0.68:                          # connect: preferably along a face (a.lNext.lNext = b closes a triangle)
            a = rng.choice(lp)
            if rng.random() < 0.6:
                b = sim.lnext(sim.lnext(a)) if rng.random() < 0.5 else sim.lnext(a)
                tags.add('connect-face')
            else:
                b = rng.choice(lp); tags.add('connect-any')
            do('c', a, b)
        elif r < 0.82:                          # swap: preferably an interior edge of two adjacent triangles
            inner = [e for e in lp if sim.face_len(e) == 3 and sim.face_len(sim.sym(e)) == 3 and sim.lnext(e) != sim.sym(e)]
            if inner and rng.random() < 0.8:
                e = rng.choice(inner); tags.add('swap-interior')
            else:
                e = rng.choice(lp); tags.add('swap-any')
            do('w', e)
        elif r < 0.95:                          # remove: preferably a bridge (same face on both sides)
            bridges = [e for e in lp if sim.inv(e) in sim.ring(sim.rot(e))]
            if bridges and rng.random() < 0.6:
                e = rng.choice(bridges); tags.add('remove-bridge')
            else:
                e = rng.choice(lp); tags.add('remove-any')
            do('x', e)
        else:                                   # outside the legality predicate (model and implementation must still agree)
            k = rng.random()
            allq = [(q, rr) for q in range(sim.n) for rr in range(4)]
            if k < 0.3 and sim.dead:
                q = rng.choice(sorted(sim.dead)); do('s', (q, 0), rng.choice(lp)); tags.add('illegal-dead')
            elif k < 0.6:
                do('s', rng.choice(lp), sim.rot(rng.choice(lp))); tags.add('illegal-mixed-splice')
            elif k < 0.8:
                do('x', sim.rot(rng.choice(lp))); tags.add('illegal-dual-remove')
            else:
                do('w', sim.rot(rng.choice(lp))); tags.add('illegal-dual-swap')
    last = None
    if rng.random() < 0.3 and sim.live_primal() and not any(t.startswith('illegal') for t in tags):
        lp = sim.live_primal(); a = rng.choice(lp); b = rng.choice([sim.lnext(a), sim.lnext(sim.lnext(a)), rng.choice(lp)])
        q0 = (sim.n, 0); do('c', a, b); last = (a, q0, b); tags.add('final-connect')
    return mode, ops, tags, last


def parse_qe_dump(d):
    nxt = {}
    for t in d.split()[1:]:
        lhs, rest = t.split('>')
        tgt = rest.split('^')[0]
        q, r = lhs.rstrip('!').split('.'); q2, r2 = tgt.split('.')
        nxt[(int(q), int(r))] = (int(q2), int(r2))
    return nxt


def do_quadedge(S, rng, n):
    """hand model of the quad-edge algebra (C16/QuadEdgeDefs.v, extracted) beside real QuadEdge objects (harness/c16_quadedge.cpp)
    on generated operation histories: the canonical dumps (next pointer, rot, origin, liveness of every edge) must be equal."""
    ctx, st = S['ctx'], S['st']
    cases = [gen_qe_history(rng, st) for _ in range(n)]
    cases = [('E', [], set(['empty']), None), ('F', [], set(['empty']), None)] + cases
    lines = ['H %s %s' % (m, ' ; '.join(ops)) for m, ops, _, _ in cases]
    impl = par_lines(ctx, [S['qexe']], lines, timeout=300)
    model = par_lines(ctx, [S['drv']], lines, timeout=300)
    for (m, ops, tags, last), line, i, mo in zip(cases, lines, impl, model):
        dump, _, suffix = mo.partition(' | ')
        flags = dict(t.split('=') for t in suffix.split()) if suffix else {}
        ctx.count(('H', line), len(ops) >= 3)
        st.inc('quadedge', 'mode', m)
        for t in tags: st.inc('quadedge', 'class', t)
        st.inc('quadedge', 'legal', flags.get('legal', '?'))
        st.inc('quadedge', 'ops', str(min(40, len(ops)) // 10 * 10) + '+')
        why = None
        if i != dump or not dump.startswith('n='):
            why = 'quad-edge model and QuadEdge objects differ after the same operation history'
        elif flags.get('legal') == '1' and flags.get('inv') != '1':
            why = 'a legal history reached a state outside the proved invariant (extracted model contradicts C16_qe_reachable_invariant)'
        elif last is not None and flags.get('legal') == '1':
            a, q0, b = last; nx = parse_qe_dump(i)
            ln = lambda e: QESim.rot(nx[QESim.inv(e)])
            st.inc('quadedge', 'connect_lnext_checked')
            if ln(a) != q0 or ln(q0) != b:
                why = 'connect(a,b): a.lNext / new.lNext are not (new edge, b) on the real objects (QuadEdge.h: same left face)'
        if why:
            S['nviol'] += 1
            ctx.violation('quad-edge history %d' % S['nviol'], dict(history=line, implementation=i[:3000], model=mo[:3000], expected='identical dumps', why=why,
                                                  replay='echo "%s" | %s ; echo "%s" | %s' % (line, S['qexe'], line, S['drv'])), msg=why)
            if S['nviol'] > 8:
                return
    for l in lines[1:3]:
        ctx.sample(l)



# ================================================================================================ the check
def par_lines(ctx, argv, lines, timeout=900, workers=6, min_chunk=40):
    """ctx.run_lines over contiguous chunks in parallel worker processes (results in input order)"""
    n = len(lines)
    if n < 2 * min_chunk:
        return ctx.run_lines(argv, lines, timeout=timeout)
    from concurrent.futures import ThreadPoolExecutor
    k = min(workers, max(1, n // min_chunk))
    size = (n + k - 1) // k
    chunks = [lines[i:i + size] for i in range(0, n, size)]
    with ThreadPoolExecutor(max_workers=k) as ex:
        res = list(ex.map(lambda c: ctx.run_lines(argv, c, timeout=timeout), chunks))
    return [o for r in res for o in r]


def run_harness(S, lines, timeout=900):
    """run the C++ harness; a loader error (the shared library is being re-linked by a concurrent build of /repo) is not an
    answer of the implementation: wait for the build lock and run the batch again"""
    ctx = S['ctx']
    for attempt in range(4):
        out = par_lines(ctx, [S['hexe']], lines, timeout=timeout)
        if not any(o.startswith('CRASH:127') and 'shared libraries' in o for o in out):
            return out
        import time
        time.sleep(5 + 10 * attempt)
        ctx.build_repo('rel')
    return out


class Stats(dict):
    def inc(self, *ks):
        d = self
        for k in ks[:-1]:
            d = d.setdefault(k, {})
        d[ks[-1]] = d.get(ks[-1], 0) + 1


def fix_axioms_header(ctx, ok, ax):
    """vlib.core._assumptions also matches the header line `Axioms:` that Print Assumptions prints before a non-empty axiom list and
    reports the word `Axioms` as a non-whitelisted axiom (the binary64 theorems depend on the stdlib real-number axioms). Drop
    exactly that artefact — every real axiom name is still checked against the whitelist — and run the hygiene gate that
    coq_build skipped. (Same workaround as props/C07.py; reported to the lead.)"""
    from vlib.core import AXIOM_WHITELIST, AXIOM_PREFIX_WHITELIST
    if ok or 'Axioms' not in ax:
        return ok
    real = [a for a in ax if a != 'Axioms']
    bad = [a for a in real if not (a in AXIOM_WHITELIST or a.startswith(AXIOM_PREFIX_WHITELIST))]
    mine = [b for b in ctx.broken if b.get('kind') == 'proof' and b.get('name') == 'Print Assumptions']
    if bad or len(mine) != 1 or "['Axioms']" not in mine[0].get('detail', ''):
        return ok
    ctx.broken.remove(mine[0])
    ctx.cov['trusted_base'] = sorted(set(ctx.cov['trusted_base']) - {'Axioms'})
    g = ctx.hygiene()
    if g:
        ctx.broken.append(dict(kind='proof', name='hygiene gate', detail=g))
        return False
    ctx.log('coq ok (axioms: %s)' % sorted(real))
    return True


def parse_tris(s):
    """'T x y x y x y ; ...' -> list of token lists, or None on a malformed record"""
    body = s.strip()
    assert body.startswith('T') or body.startswith('E'), body[:40]
    recs = [r.split() for r in body[1:].split(';')]
    return [r for r in recs if r]


def delaunay_driver_line(sites, tol, hout, dj):
    tpart, epart = hout.split(' | ')
    tr = parse_tris(tpart); er = parse_tris(epart)
    if any(len(r) != 6 for r in tr) or any(len(r) != 4 for r in er) or '?' in hout:
        return None
    return 'D %d %d S %s T %s E %s' % (tol * tol, 1 if dj else 0, sites_txt(sites), ' '.join(' '.join(r) for r in tr), ' '.join(' '.join(r) for r in er))


def run(ctx):
    quick = ctx.quick
    ctx.cov['rule'] = ('site sets / polygons / predicate quadruples on the 2^25 grid (families: tiny, random, lattice patches, all-collinear, collinear runs, '
                       'hull edges carrying many sites, lattice circles, concentric lattice circles (in-circle error band), thin diagonal, clusters, '
                       'duplicates; polygons: convex, x-monotone, star, comb, spiral, with holes free / touching shell at a vertex / on an edge / '
                       'touching each other, flat vertices, thin at the bound); non-trivial = at least one triangle (or cell) returned and the case is '
                       'not a byte-identical repeat; distinct by canonical case text')
    ctx.assumptions += [
        'positive snapping tolerance: the clauses are read on the sites the triangulation keeps (its corners); every other site must lie within the tolerance of a kept one',
        'site sets whose hull has empty interior (fewer than 3 kept sites, or all collinear): no triangle is the only admissible output; the edge clause then fails by the letter (known finding C16-K2)',
        'Voronoi: output ordinates are binary64 roundings of non-dyadic points; the vertex / convexity / area clauses accept a displacement of every vertex by %d ulp of the envelope magnitude (exact rational arithmetic otherwise); the clip envelope is the one documented for the C API (site envelope expanded by its larger side, united with the caller\'s)' % ULPS,
        'Voronoi with PRESERVE_ORDER and repeated input points returns NULL as documented in geos_c.h; not counted as a failure',
        'interior-disjointness and covering: proved consequences are the area identity and pairwise disjointness (checked pairwise up to %d triangles); "union = region" additionally needs the covering-degree argument (stated, not proved)' % 150,
        'polygon validity of generated inputs is decided by the extracted C05 model (Lib/ValidDefs)',
        'binary64 semantics = SpecFloat (round to nearest even), checked bit for bit against the compiled predicate; long double isInCircleNormalized is not modelled']
    ok_build = ctx.build_repo('rel')
    tr = ctx.translate(['TP_isInCircleRobust', 'TP_isInCircleNonRobust'])
    ok_coq, ax = ctx.coq_build('Properties_C16')
    ok_coq = fix_axioms_header(ctx, ok_coq, ax)
    drv = ctx.ocaml_driver('C16')
    hexe = os.path.join(BUILD, 'bin', 'c16')
    qexe = os.path.join(BUILD, 'bin', 'c16_quadedge')
    if not ok_build or not ctx.cxx(os.path.join(ROOT, 'harness/c16.cpp'), hexe, 'rel') or not drv:
        return
    if not ctx.cxx(os.path.join(ROOT, 'harness/c16_quadedge.cpp'), qexe, 'rel'):
        return
    st = Stats()
    state = dict(ctx=ctx, drv=drv, hexe=hexe, qexe=qexe, st=st, nviol=0)
    if ctx.replay:
        return do_replay(state, ctx.replay)
    seeds = [ctx.seed] if quick else [ctx.seed + i for i in range(3)]
    for si, sd in enumerate(seeds):
        rng = random.Random(sd * 7919 + 16)
        do_quadedge(state, random.Random(sd * 7919 + 1616), 1500 if quick else 20000); ctx.log('quad-edge histories done (seed %d)' % sd)
        if state['nviol'] > 8:
            break
        do_predicate(state, rng, 2500 if quick else 20000); ctx.log('predicate correspondence done (seed %d)' % sd)
        do_delaunay(state, rng, 700 if quick else 5000, corpus=(si == 0)); ctx.log('Delaunay done')
        do_constrained(state, rng, 1500 if quick else 4000, corpus=(si == 0)); ctx.log('constrained done')
        do_voronoi(state, rng, 500 if quick else 2000); ctx.log('Voronoi done')
        if state['nviol'] > 8:
            break
    ctx.cov['traces_validated_against_impl'] = ctx.cov['evaluations']
    ctx.notes['distribution'] = st
    # generator self-check: the proof-relevant families must have been drawn and must have been non-vacuous
    need = [('delaunay', 'family', 'concentric'), ('delaunay', 'family', 'collinear'), ('delaunay', 'tolerance', 'merge'),
            ('delaunay', 'tolerance', 'sub'), ('constrained', 'holes', 'touching'), ('constrained', 'empty_element_position', 'first'), ('constrained', 'wrapper', 'collection'), ('voronoi', 'env', 'user'), ('voronoi', 'ordered', 'yes'), ('voronoi', 'edges_only', 'yes'), ('voronoi', 'requests', 'PL'), ('voronoi', 'requests', 'LP'), ('delaunay', 'requests', 'ET'), ('delaunay', 'requests', 'TE'), ('voronoi', 'env_shape', 'hstrip'),
            ('voronoi', 'env_shape', 'vstrip'), ('voronoi', 'env_shape', 'offset'), ('voronoi', 'env_multiplier', '100'), ('voronoi', 'env_multiplier', '1000'),
            ('predicate', 'model_answer', '1'), ('predicate', 'model_answer', '0'), ('predicate', 'model_answer', '2'),
            ('quadedge', 'class', 'splice-same'), ('quadedge', 'class', 'splice-diff'), ('quadedge', 'class', 'swap-interior'),
            ('quadedge', 'class', 'remove-bridge'), ('quadedge', 'class', 'connect-face'), ('quadedge', 'mode', 'F'), ('quadedge', 'mode', 'E'),
            ('quadedge', 'connect_lnext_checked')]
    for path in ([] if state['nviol'] > 8 else need):      # a run cut short by failures has not drawn everything
        d = st
        for k in path:
            d = d.get(k, {}) if isinstance(d, dict) else {}
        if not d:
            ctx.broken.append(dict(kind='generator', name='distribution ' + '/'.join(path), detail='the generator never produced this class'))


def do_replay(S, path):
    """./check C16 --replay <file>: re-run the input stored in a replay file written by this check"""
    import json
    ctx = S['ctx']
    d = json.load(open(path))
    tup = lambda l: [tuple(p) for p in l]
    if 'shrunk_polygons' in d or 'polygons' in d:
        polys = [[tup(r) for r in rings] for rings in (d.get('shrunk_polygons') or d['polygons'])]
        r = eval_constrained(S, [(d.get('family', 'replay'), polys, d.get('scale_exponent', 0))])[0]
    elif str(d.get('call', '')).startswith('GEOSVoronoi'):
        r = eval_voronoi(S, [(d.get('family', 'replay'), tup(d.get('shrunk_sites') or d['sites']), d.get('tolerance', 0), d.get('scale_exponent', 0),
                              d.get('flags', 0), tuple(d['env']) if d.get('env') else None, d.get('geometry', 'M'))])[0]
    elif 'sites' in d:
        tol = d.get('tolerance_grid_units', 0)
        r = eval_delaunay(S, [(d.get('family', 'replay'), tup(d.get('shrunk_sites') or d['sites']), tol, 'zero' if tol == 0 else 'merge',
                               d.get('scale_exponent', 0), d.get('geometry', 'M'))])[0]
    else:
        ctx.log('replay file has no input of this check'); return
    ctx.count(('replay', r['harness_line']), True)
    ctx.log('replay: %s | implementation: %s | checker: %s' % (r['verdict'], r['impl'][:300], r['driver'][:300]))
    if r['verdict'] == 'VIOLATION':
        S['nviol'] += 1
        ctx.violation('replay', dict(replayed=path, harness_line=r['harness_line'], implementation=r['impl'][:4000], checker=r['driver'], why=r['why'],
                                     replay='./check C16 --replay %s' % path), msg=r['why'])
    elif r['verdict'].startswith('KNOWN'):
        ent = ctx.known_match(lambda f: f.get('id') == 'C16-' + r['verdict'].split('-')[1])
        if ent: ctx.known_hit(ent)


# ------------------------------------------------------------------------------------------------ predicate (mode P)
def do_predicate(S, rng, n):
    ctx, st = S['ctx'], S['st']
    cases = gen_pred_cases(rng, n)
    lines = ['P ' + ' '.join(hexd(v) for v in vals) for _, vals in cases]
    impl = run_harness(S, lines, timeout=600)
    model = par_lines(ctx, [S['drv']], lines, timeout=600)
    for (kind, vals), line, i, m in zip(cases, lines, impl, model):
        mt = m.split()
        it = i.split()
        nontrivial = len(mt) >= 2 and mt[0] == '1' and mt[1] != '1'       # the error band turns a decided sign into BOUNDARY
        ctx.count(('P', line), True)
        st.inc('predicate', 'kind', kind)
        if len(mt) >= 1: st.inc('predicate', 'model_answer', mt[0])
        if nontrivial: st.inc('predicate', 'band_changes_answer')
        if len(it) < 2 or len(mt) < 2 or it[0] != mt[0] or it[1] != mt[1]:
            S['nviol'] += 1
            st.inc('predicate', 'disagreements')
            # a disagreement of the binary64 model with the compiled predicate: lift it to a site set where it decides a flip
            if not any(b.get('name') == 'isInCircleRobust model vs TrianglePredicate' for b in ctx.broken):
                ctx.broken.append(dict(kind='correspondence', name='isInCircleRobust model vs TrianglePredicate',
                                       detail='input %s\nmodel (robust nonrobust det deterror): %s\nimplementation (robust nonrobust normalized): %s\nre-run: echo "%s" | %s ; echo "%s" | %s'
                                              % (line, m, i, line, S['hexe'], line, S['drv'])))
            lift_predicate_failure(S, vals, it, mt)
            if S['nviol'] > 8:
                return
    for l in lines[:2]:
        ctx.sample(l)


def lift_predicate_failure(S, vals, it, mt):
    """a quadruple on which the implementation's predicate differs from the model: if it is a grid quadruple, triangulate it
    (the four points alone) and let the Delaunay checker decide the property on the implementation's output"""
    ctx = S['ctx']
    if not all(math.isfinite(v) and v == int(v) and abs(v) <= LIM for v in vals):
        return
    pts = [(int(vals[2 * i]), int(vals[2 * i + 1])) for i in range(4)]
    res = eval_delaunay(S, [('lift', pts, 0, 'zero', 0, 'M')])
    for r in res:
        if r['verdict'] == 'VIOLATION':
            report_delaunay(S, r)


# ------------------------------------------------------------------------------------------------ Delaunay
def distinct(l):
    out = []
    for x in l:
        if x not in out: out.append(x)
    return out


def classify_delaunay(case, d):
    """(verdict, why, codes, kv) of one checker answer"""
    fam, pts, tol, regime, k, gt = case
    if d == 'OK':
        return 'OK', '', None, {}
    if d.startswith('FAIL'):
        toks = d.split()
        codes = [t for t in toks[1:] if t.startswith('c')]
        kv = dict(t.split('=', 1) for t in toks[1:] if '=' in t)
        if codes == ['c8'] and int(kv.get('local', 0)) >= 1 and kv.get('local') == kv.get('blind'):
            return 'KNOWN-K1', '', codes, kv
        if codes == ['c13']:
            return 'KNOWN-K2', '', codes, kv
        if regime == 'sub' and codes == ['c3']:
            return 'VIOLATION', 'a site farther than the tolerance from every other site is missing from the triangulation', codes, kv
        return 'VIOLATION', 'Delaunay checker clauses failed: %s (%s)' % (' '.join(codes), CLAUSES_D), codes, kv
    return 'VIOLATION', 'checker did not return a verdict: ' + d[:200], None, {}


def eval_delaunay(S, cases):
    """cases: (family, sites, tolnum, regime, k, gtype). gtype 'M' | 'L' | 'C' = one C API request pair (triangles, then edges);
    gtype '<g>:<seq>' (e.g. 'M:ETE') = ONE DelaunayTriangulationBuilder of the C++ API answering the requests of seq in order
    (T getTriangles, E getEdges). Every distinct triangle answer is judged together with a distinct edge answer of the same
    builder by the same certified checker; the case fails if any pair fails."""
    ctx = S['ctx']
    hl = []
    for _, pts, tol, _, k, gt in cases:
        if ':' in gt:
            g0, sq = gt.split(':'); hl.append('d %d %d %s %s %s' % (k, tol, g0, sq, sites_txt(pts)))
        else:
            hl.append('D %d %d %s %s' % (k, tol, gt, sites_txt(pts)))
    hout = run_harness(S, hl, timeout=900)
    dl = []; idx = []
    res = []
    for ci, (c, ho) in enumerate(zip(cases, hout)):
        fam, pts, tol, regime, k, gt = c
        r = dict(case=c, harness_line=hl[ci], impl=ho, verdict=None, why='', driver_line=None, driver='')
        res.append(r)
        answers = ho.split(' | ')
        if ho.startswith('CRASH') or ho == 'TIMEOUT' or ho.startswith('NONGRID') or any(a.startswith('ERR') for a in answers) or 'BAD' in ho or ho == '?':
            r['verdict'] = 'VIOLATION'; r['why'] = 'implementation failed or returned a malformed result: ' + ho[:300]
            continue
        ts = distinct([a for a in answers if a.startswith('T')]); es = distinct([a for a in answers if a.startswith('E')])
        if not ts or not es:
            r['verdict'] = 'VIOLATION'; r['why'] = 'unparsable result: ' + ho[:300]; continue
        pairs = [(ts[min(i, len(ts) - 1)], es[min(i, len(es) - 1)]) for i in range(max(len(ts), len(es)))]
        r['ntri'] = max(t.count(';') for t in ts); r['npairs'] = len(pairs)
        for t, e in pairs:
            line = delaunay_driver_line(pts, tol, t + ' | ' + e, dj=t.count(';') <= 150)
            if line is None:
                r['verdict'] = 'VIOLATION'; r['why'] = 'unparsable result: ' + ho[:300]; break
            dl.append(line); idx.append(ci)
    dout = par_lines(ctx, [S['drv']], dl, timeout=1800) if dl else []
    rank = {'OK': 0, 'KNOWN-K2': 1, 'KNOWN-K1': 2, 'VIOLATION': 3}
    for ci, line, d in zip(idx, dl, dout):
        r = res[ci]
        if r['verdict'] == 'VIOLATION' and r['driver_line'] is None:
            continue
        v, why, codes, kv = classify_delaunay(r['case'], d)
        if r['verdict'] is None or rank[v] > rank[r['verdict']]:
            r['verdict'] = v; r['why'] = why; r['codes'] = codes; r['kv'] = kv; r['driver'] = d; r['driver_line'] = line
            if v == 'VIOLATION' and r.get('npairs', 1) > 1:
                r['why'] = 'requests on one builder give different answers and one of them fails: ' + why
        elif r['driver_line'] is None:
            r['driver_line'] = line; r['driver'] = d
    return res


CLAUSES_D = ('c0 no triangle, c1 degenerate triangle, c2 corner not a site, c3 site not a corner, c4 directed edge twice (overlap), c5 hull cycle, '
             'c6 boundary edges != hull cycle, c7 area sum != hull area, c8 site strictly inside a circumcircle, c10 edge output != edge set of the '
             'triangles, c11 two triangles overlap, c12 no triangles for non-collinear sites, c13 edges returned although there is no triangle')


def shrink_sites(S, case, same):
    """delete sites while a failure of the same class persists"""
    fam, pts, tol, regime, k, gt = case
    cur = list(pts); budget = 60
    step = max(1, len(cur) // 2)
    while step >= 1 and budget > 0:
        i = 0
        while i < len(cur) and budget > 0 and len(cur) > 1:
            cand = cur[:i] + cur[i + step:]
            budget -= 1
            if cand:
                r = eval_delaunay(S, [(fam, cand, tol, regime, k, gt)])[0]
                if same(r):
                    cur = cand; continue
            i += step
        step //= 2
    return cur


def report_delaunay(S, r):
    ctx = S['ctx']
    fam, pts, tol, regime, k, gt = r['case']
    v0 = r['verdict']; c0 = r.get('codes')
    small = pts
    try:
        small = shrink_sites(S, r['case'], lambda x: x['verdict'] == v0 and (x.get('codes') == c0))
    except Exception:
        pass
    rr = eval_delaunay(S, [(fam, small, tol, regime, k, gt)])[0]
    S['nviol'] += 1
    ctx.violation('delaunay_%d' % S['nviol'],
                  dict(call=('DelaunayTriangulationBuilder (one object): requests ' + gt.split(':')[1]) if ':' in gt else 'GEOSDelaunayTriangulation_r (triangles, then edges only)', family=fam, scale_exponent=k, tolerance_grid_units=tol, geometry=gt,
                       sites=pts, shrunk_sites=small, implementation=rr['impl'], checker=rr['driver'], clauses=CLAUSES_D,
                       expected='every clause of DelaunaySpec (Properties_C16.C16_check_delaunay_sound) holds',
                       replay='echo "%s" | %s   # then: echo "<driver_line>" | %s ; or ./check C16 --replay <this file>' % (rr['harness_line'], S['hexe'], S['drv']),
                       driver_line=rr['driver_line'], why=r['why']), msg=r['why'])


def do_delaunay(S, rng, n, corpus=False):
    ctx, st = S['ctx'], S['st']
    cases = []
    if corpus:
        cp = os.path.join(ROOT, 'gen/corpus/C16.txt')
        if os.path.exists(cp):
            for l in open(cp):
                l = l.strip()
                if l and not l.startswith('#') and l.startswith('D '):
                    w = l.split(); pts = [(int(w[i]), int(w[i + 1])) for i in range(4, len(w), 2)]
                    cases.append(('corpus', pts, int(w[2]), 'zero' if w[2] == '0' else 'merge', int(w[1]), w[3]))
    for _ in range(n):
        fams = SITE_FAMILIES + (['large'] if rng.random() < (0.02 if ctx.quick else 0.004) else [])
        fam, pts = make_site_case(rng, ctx.quick, fams)
        tol, regime = pick_tolerance(rng, pts)
        k = rng.choice([0, 0, 0, 0, 1, -1, 3, -7, 20, -20, 100, -100])
        gt = rng.choice(['M', 'M', 'L', 'C', 'X', 'Z', 'Y'])
        if rng.random() < 0.35:      # several requests on ONE DelaunayTriangulationBuilder (C++ API)
            gt += ':' + rng.choice(DELAUNAY_SEQS)
        cases.append((fam, pts, tol, regime, k, gt))
    res = eval_delaunay(S, cases)
    for r in res:
        fam, pts, tol, regime, k, gt = r['case']
        nontrivial = r.get('ntri', 0) >= 1
        ctx.count(('D', r['harness_line']), nontrivial)
        st.inc('delaunay', 'family', fam); st.inc('delaunay', 'tolerance', regime); st.inc('delaunay', 'verdict', r['verdict'])
        st.inc('delaunay', 'requests', gt.split(':')[1] if ':' in gt else 'C API')
        nt = r.get('ntri', 0)
        st.inc('delaunay', 'triangles', '0' if nt == 0 else '1-3' if nt <= 3 else '4-20' if nt <= 20 else '21-100' if nt <= 100 else '>100')
        if r['verdict'] == 'KNOWN-K1':
            ent = ctx.known_match(lambda f: f.get('id') == 'C16-K1')
            st.inc('delaunay', 'band_violations_by_family', fam)
            if ent:
                ctx.known_hit(ent)
                if 'k1_example' not in ctx.notes:
                    ctx.notes['k1_example'] = dict(sites=pts, tolerance=tol, checker=r['driver'], harness_line=r['harness_line'])
            else:
                r['why'] = 'a site lies strictly inside a circumcircle (in-circle error band of isInCircleRobust): ' + r['driver']
                report_delaunay(S, r)
        elif r['verdict'] == 'KNOWN-K2':
            ent = ctx.known_match(lambda f: f.get('id') == 'C16-K2')
            if ent:
                ctx.known_hit(ent)
            else:
                r['why'] = 'edges-only output is not the edge set of the (empty) triangle output for collinear sites'
                report_delaunay(S, r)
        elif r['verdict'] == 'VIOLATION':
            report_delaunay(S, r)
        if S['nviol'] > 8:
            return
    for r in res[:2]:
        ctx.sample(r['harness_line'][:300])


# ------------------------------------------------------------------------------------------------ constrained
CLAUSES_C = ('c1 degenerate triangle, c2 corner not a polygon vertex, c3 polygon vertex not a corner, c4 directed edge twice (overlap), c6 boundary edges != '
             'polygon boundary, c7 area sum != polygon area, c9 centroid / edge midpoint outside the polygon, c11 two triangles overlap, c20 triangle owned by no / several polygons')


def eval_constrained(S, cases):
    ctx = S['ctx']
    hl = []
    for fam, polys, k in cases:
        # fam '<family>@G' / '@N': the polygons wrapped in a GEOMETRYCOLLECTION / nested collection; a polygon without rings is POLYGON EMPTY
        tag = fam.split('@')[1] if '@' in fam else 'C'
        hl.append('%s %d %s' % (tag, k, ' / '.join(poly_txt(rings) if rings else 'E' for rings in polys)))
    hout = run_harness(S, hl, timeout=900)
    res = []; dl = []; idx = []
    for ci, (c, ho) in enumerate(zip(cases, hout)):
        fam, polys, k = c
        r = dict(case=c, harness_line=hl[ci], impl=ho, verdict=None, why='', driver_line=None, driver='')
        res.append(r)
        ptxt = ' '.join('P ' + poly_txt(rings) for rings in polys if rings)
        if ho.startswith('T'):
            recs = parse_tris(ho)
            if any(len(x) != 6 for x in recs) or '?' in ho or 'BAD' in ho:
                r['verdict'] = 'MALFORMED'; r['why'] = 'malformed result: ' + ho[:300]
                line = 'C 0 %s T' % ptxt        # still ask the model whether the input is valid
            else:
                r['ntri'] = len(recs)
                line = 'C %d %s T %s' % (1 if len(recs) <= 150 else 0, ptxt, ' '.join(' '.join(x) for x in recs))
        else:
            r['verdict'] = 'MALFORMED'; r['why'] = 'implementation failed: ' + ho[:300]
            line = 'C 0 %s T' % ptxt
        r['driver_line'] = line; dl.append(line); idx.append(ci)
    dout = par_lines(ctx, [S['drv']], dl, timeout=1800) if dl else []
    for ci, d in zip(idx, dout):
        r = res[ci]; r['driver'] = d
        if d == 'INVALID-INPUT':
            r['verdict'] = 'INVALID-INPUT'
        elif r['verdict'] == 'MALFORMED':
            r['verdict'] = 'VIOLATION'
            if r['impl'].startswith('ERR') and 'Unable to find' in r['impl'] and k4_configuration(r['case'][1]):
                r['verdict'] = 'KNOWN-K4'
        elif d == 'OK':
            r['verdict'] = 'OK'
        elif d.startswith('FAIL'):
            r['verdict'] = 'VIOLATION'; r['codes'] = d.split()[1:]
            r['why'] = 'constrained triangulation checker clauses failed: %s (%s)' % (' '.join(r['codes']), CLAUSES_C)
        else:
            r['verdict'] = 'VIOLATION'; r['why'] = 'checker did not return a verdict: ' + d[:200]
    return res


def on_seg(p, a, b):
    return det(a, b, p) == 0 and min(a[0], b[0]) <= p[0] <= max(a[0], b[0]) and min(a[1], b[1]) <= p[1] <= max(a[1], b[1])


def k4_configuration(polys):
    """the configuration of known finding C16-K4, read off the input alone by replaying the order in which PolygonHoleJoiner
    treats the holes (sorted by envelope: minx, miny, maxx, maxy): some hole, at its turn, has THREE or more distinct points
    (its own vertices, or vertices of other rings lying on its edges = the noded touch points) in common with the ring joined
    so far (shell + earlier holes). Such a hole is spliced in at the first of these points; the others pinch the joined
    ring and, with the cut lines of earlier non-touching holes, cut a pocket whose boundary is not contiguous in the ring."""
    for rings in polys:
        if len(rings) < 4:
            continue
        allv = set(p for r in rings for p in r)
        def noded(r):
            return set(r) | set(p for p in allv if any(on_seg(p, a, b) for a, b in zip(r, r[1:])))
        holes = sorted(rings[1:], key=lambda h: (min(p[0] for p in h), min(p[1] for p in h), max(p[0] for p in h), max(p[1] for p in h)))
        joined = noded(rings[0])
        for h in holes:
            pts = noded(h)
            if len(pts & joined) >= 3:
                return True
            joined |= pts
    return False


def shrink_polys(S, case, same):
    """drop polygons, holes, then single vertices while the same failure persists on a still-valid input"""
    fam, polys, k = case
    cur = [list(map(list, rings)) for rings in polys]; budget = 80
    def attempt(cand):
        nonlocal cur, budget
        budget -= 1
        r = eval_constrained(S, [(fam, cand, k)])[0]
        if same(r):
            cur = cand; return True
        return False
    changed = True
    while changed and budget > 0:
        changed = False
        for pi in range(len(cur)):
            if len(cur) > 1 and budget > 0 and attempt(cur[:pi] + cur[pi + 1:]): changed = True; break
            for hi in range(1, len(cur[pi])):
                if budget > 0 and attempt(cur[:pi] + [cur[pi][:hi] + cur[pi][hi + 1:]] + cur[pi + 1:]): changed = True; break
            if changed: break
            for ri in range(len(cur[pi])):
                ring = cur[pi][ri]
                for vi in range(len(ring) - 1):
                    if len(ring) <= 4 or budget <= 0: break
                    nr = ring[:vi] + ring[vi + 1:]
                    if vi == 0: nr = nr[:-1] + [nr[0]]
                    if attempt(cur[:pi] + [cur[pi][:ri] + [nr] + cur[pi][ri + 1:]] + cur[pi + 1:]): changed = True; break
                if changed: break
            if changed: break
    return cur


def report_constrained(S, r):
    ctx = S['ctx']
    fam, polys, k = r['case']
    v0, c0 = r['verdict'], r.get('codes')
    small = polys
    try:
        small = shrink_polys(S, r['case'], lambda x: x['verdict'] == v0 and x.get('codes') == c0)
    except Exception:
        pass
    rr = eval_constrained(S, [(fam, small, k)])[0]
    S['nviol'] += 1
    ctx.violation('constrained_%d' % S['nviol'],
                  dict(call='GEOSConstrainedDelaunayTriangulation_r', family=fam, scale_exponent=k, polygons=polys, shrunk_polygons=small,
                       implementation=rr['impl'], checker=rr['driver'], clauses=CLAUSES_C,
                       expected='every clause of CdtSpec (Properties_C16.C16_check_cdt_sound) holds',
                       replay='echo "%s" | %s' % (rr['harness_line'], S['hexe']), driver_line=rr['driver_line'], why=r['why']), msg=r['why'])


def do_constrained(S, rng, n, corpus=False):
    ctx, st = S['ctx'], S['st']
    cases = []
    cp = os.path.join(ROOT, 'gen/corpus/C16.txt')
    if corpus and os.path.exists(cp):
        for l in open(cp):
            l = l.strip()
            if l.startswith('C '):
                k, rest = l[2:].split(None, 1)
                polys = [[[(int(w[i]), int(w[i + 1])) for i in range(0, len(w), 2)] for w in (r.split() for r in ps.split(';')) if w] for ps in rest.split('/')]
                cases.append(('corpus', polys, int(k)))
    for _ in range(n):
        k = rng.choice([0, 0, 0, 2, -5, 30, -30])
        if rng.random() < 0.12:     # several polygons side by side (MultiPolygon), possibly touching at a vertex
            polys = []; x0 = 0
            for _ in range(rng.randint(2, 3)):
                g = gen_polygon(rng, ctx.quick)
                if g is None or g[0] == 'bigthin': continue
                rings = g[1]
                xs = [p[0] for r in rings for p in r]; ys = [p[1] for r in rings for p in r]
                if max(xs) - min(xs) > 2 ** 22: continue
                dx = x0 - min(xs) + rng.choice([0, 1, 5]); dy = -min(ys)
                polys.append([[(x + dx, y + dy) for x, y in r] for r in rings]); x0 = max(xs) + dx
            if polys and in_bound([p for rings in polys for r in rings for p in r]):
                fam = 'multi'
                if rng.random() < 0.6:      # EMPTY polygon elements at the front, in the middle, at the end
                    for _e in range(rng.randint(1, 2)):
                        polys.insert(rng.choice([0, 0, len(polys) // 2, len(polys)]), [])
                    fam = 'multi-empty'
                cases.append((fam + rng.choice(['', '', '@G', '@N']), polys, k))
            continue
        g = gen_polygon(rng, ctx.quick)
        if g is None: continue
        if rng.random() < 0.06 and g[0] != 'bigthin':     # one polygon with EMPTY elements around it
            polys = [g[1]]
            for _e in range(rng.randint(1, 2)):
                polys.insert(rng.choice([0, 0, len(polys)]), [])
            cases.append(('single-empty' + rng.choice(['', '@G', '@N']), polys, k))
            continue
        if rng.random() < 0.01:
            cases.append(('all-empty' + rng.choice(['', '@G']), [[], []], k)); continue
        cases.append((g[0], [g[1]], k))
    res = eval_constrained(S, cases)
    for r in res:
        fam, polys, k = r['case']
        st.inc('constrained', 'verdict', r['verdict'])
        if r['verdict'] == 'INVALID-INPUT':
            st.inc('constrained', 'invalid_input_by_family', fam.split('@')[0]); continue
        st.inc('constrained', 'family', fam.split('@')[0]); st.inc('constrained', 'wrapper', {'C': 'polygon/multipolygon', 'G': 'collection', 'N': 'nested collection'}[fam.split('@')[1] if '@' in fam else 'C'])
        if any(not rings for rings in polys):
            st.inc('constrained', 'empty_element_position', 'first' if not polys[0] else 'last' if not polys[-1] else 'middle')
        polys = [rings for rings in polys if rings]
        nh = sum(len(rings) - 1 for rings in polys)
        st.inc('constrained', 'holes', '0' if nh == 0 else 'some')
        if nh:
            verts = set(p for rings in polys for p in rings[0])
            touch = any(p in verts or any(det(a, b, p) == 0 and min(a[0], b[0]) <= p[0] <= max(a[0], b[0]) and min(a[1], b[1]) <= p[1] <= max(a[1], b[1])
                                            for rings2 in polys for a, b in zip(rings2[0], rings2[0][1:]))
                        for rings in polys for h in rings[1:] for p in h)
            if touch: st.inc('constrained', 'holes', 'touching')
        ctx.count(('C', r['harness_line']), r.get('ntri', 0) >= 1)
        if r['verdict'] == 'KNOWN-K4':
            ent = ctx.known_match(lambda f: f.get('id') == 'C16-K4')
            if ent:
                ctx.known_hit(ent)
                if 'k4_example' not in ctx.notes:
                    ctx.notes['k4_example'] = dict(harness_line=r['harness_line'], implementation=r['impl'][:200])
            else:
                r['verdict'] = 'VIOLATION'; r['why'] = 'constrained triangulation of a valid polygon fails: ' + r['impl'][:200]
        if r['verdict'] == 'VIOLATION':
            report_constrained(S, r)
            if S['nviol'] > 8:
                return
    for r in res[:1]:
        ctx.sample(r['harness_line'][:300])


# ------------------------------------------------------------------------------------------------ Voronoi
CLAUSES_V = ('c1 number of cells != number of distinct sites, c2 cell ring degenerate, c3 cell not convex, c4 cell vertex outside the clip envelope, '
             'c5 own site not inside its cell, c6 a cell vertex is closer to another site, c7 area sum != envelope area, c30 cells and sites '
             'not in one-to-one containment, c31 non-finite ordinate, c40 edges-only: a vertex outside the envelope or not on a Voronoi edge, '
             'c41 edges-only: no line for two or more distinct sites')


def eval_voronoi(S, cases, ulps=ULPS):
    """cases: (family, sites, tolnum, k, flags, env, gtype). gtype '<g>' = one GEOSVoronoiDiagram_r request; '<g>:<seq>' (e.g. 'M:PLP') = ONE
    VoronoiDiagramBuilder of the C++ API answering the requests of seq in order (P getDiagram, L getDiagramEdges), the ordered bit of
    flags applied to it. Every distinct answer is judged by the cell checker (P) or the edge checker (L)."""
    ctx = S['ctx']
    hl = []
    for fam, pts, tol, k, flags, env, gt in cases:
        envt = ','.join(map(str, env)) if env else '-'
        if ':' in gt:
            g0, sq = gt.split(':'); hl.append('v %d %d %d %s %s %s %s' % (k, tol, flags & 2, envt, g0, sq, sites_txt(pts)))
        else:
            hl.append('V %d %d %d %s %s %s' % (k, tol, flags, envt, gt, sites_txt(pts)))
    hout = run_harness(S, hl, timeout=900)
    res = []; dl = []; idx = []
    for ci, (c, ho) in enumerate(zip(cases, hout)):
        fam, pts, tol, k, flags, env, gt = c
        r = dict(case=c, harness_line=hl[ci], impl=ho, verdict=None, why='', driver_line=None, driver='')
        res.append(r)
        dup = len(set(pts)) != len(pts)
        xs = [q[0] for q in pts] + ([env[0], env[2]] if env else []); ys = [q[1] for q in pts] + ([env[1], env[3]] if env else [])
        if len(set(pts)) == 1 and (max(xs) == min(xs) or max(ys) == min(ys)):
            # one distinct site and no proper envelope from the caller: the clip envelope has no interior, there is nothing to tile
            r['verdict'] = 'DEGENERATE-ENV'; continue
        if ho.startswith('CRASH') or ho == 'TIMEOUT' or ho == '?' or 'BAD' in ho:
            r['verdict'] = 'VIOLATION'; r['why'] = 'implementation failed or returned a malformed result: ' + ho[:300]; continue
        answers = distinct(ho.split(' | '))
        envd = ' '.join(map(str, env)) if env else '-'
        for a in answers:
            if a.startswith('ERR'):
                if (flags & 2) and dup and 'Multiple input coordinates' in a:
                    if r['verdict'] is None: r['verdict'] = 'DOCUMENTED-NULL'
                else:
                    r['verdict'] = 'VIOLATION'; r['why'] = 'Voronoi request failed: ' + a[:300]
                continue
            if a[:1] not in ('P', 'L'):
                r['verdict'] = 'VIOLATION'; r['why'] = 'malformed result: ' + a[:300]; continue
            cells = [x.split() for x in a[1:].split(';') if x.split()]
            r['ncells'] = max(r.get('ncells', 0), len(cells))
            if a[0] == 'L':
                line = 'W %d %s S %s G %s' % (ulps, envd, sites_txt(pts), ' ; '.join(' '.join(c2) for c2 in cells))
            else:
                line = 'V %d %d %s S %s G %s' % (ulps, 1 if flags & 2 else 0, envd, sites_txt(pts), ' ; '.join(' '.join(c2) for c2 in cells))
            dl.append(line); idx.append(ci)
    dout = par_lines(ctx, [S['drv']], dl, timeout=1800) if dl else []
    for ci, line, d in zip(idx, dl, dout):
        r = res[ci]
        if r['verdict'] == 'VIOLATION':
            continue
        if d == 'OK':
            if r['verdict'] in (None, 'DOCUMENTED-NULL'): r['verdict'] = 'OK'
            if r['driver_line'] is None: r['driver_line'] = line; r['driver'] = d
        elif d.startswith('FAIL'):
            r['verdict'] = 'VIOLATION'; r['codes'] = d.split()[1:]; r['driver_line'] = line; r['driver'] = d
            r['why'] = 'Voronoi checker clauses failed: %s (%s)' % (' '.join(r['codes']), CLAUSES_V)
        else:
            r['verdict'] = 'VIOLATION'; r['why'] = 'checker did not return a verdict: ' + d[:200]; r['driver_line'] = line; r['driver'] = d
    return res


def shrink_voronoi(S, r):
    fam, pts, tol, k, flags, env, gt = r['case']
    v0, c0 = r['verdict'], r.get('codes')
    cur = list(pts); budget = 60; step = max(1, len(cur) // 2)
    try:
        while step >= 1 and budget > 0:
            i = 0
            while i < len(cur) and budget > 0 and len(cur) > 1:
                cand = cur[:i] + cur[i + step:]; budget -= 1
                x = eval_voronoi(S, [(fam, cand, tol, k, flags, env, gt)])[0]
                if x['verdict'] == v0 and x.get('codes') == c0: cur = cand
                else: i += step
            step //= 2
    except Exception:
        pass
    return cur


def band_quadruples(S, pts):
    """number of site quadruples on which isInCircleRobust (binary64 model) answers BOUNDARY although the exact determinant is not 0"""
    u = sorted(set(pts))
    if len(u) > 14:
        return 0, ''
    out = S['ctx'].run_lines([S['drv']], ['Q ' + sites_txt(u)], timeout=300)[0].split()
    try:
        return int(out[0]), (out[1] if len(out) > 1 else '')
    except Exception:
        return 0, ''


def report_voronoi(S, r):
    ctx = S['ctx']
    fam, pts, tol, k, flags, env, gt = r['case']
    cur = shrink_voronoi(S, r)
    rr = eval_voronoi(S, [(fam, cur, tol, k, flags, env, gt)])[0]
    nb, first = band_quadruples(S, cur)
    if nb > 0 and rr['verdict'] == 'VIOLATION':
        ent = ctx.known_match(lambda f: f.get('id') == 'C16-K3')
        if ent:
            ctx.known_hit(ent); S['st'].inc('voronoi', 'band_failures_by_family', fam)
            if 'k3_example' not in ctx.notes:
                ctx.notes['k3_example'] = dict(sites=cur, env=env, flags=flags, checker=rr['driver'], band_quadruple=first, harness_line=rr['harness_line'])
            return 'KNOWN-K3'
    S['nviol'] += 1
    ctx.violation('voronoi_%d' % S['nviol'],
                  dict(call=('GEOSVoronoiDiagram_r / VoronoiDiagramBuilder (one object): requests ' + gt.split(':')[1]) if ':' in gt else 'GEOSVoronoiDiagram_r', family=fam, scale_exponent=k, tolerance=tol, flags=flags, env=env, geometry=gt, sites=pts, shrunk_sites=cur,
                       implementation=rr['impl'][:4000], checker=rr['driver'], clauses=CLAUSES_V, accepted_vertex_displacement_ulps=ULPS,
                       band_quadruples_in_shrunk_sites=nb,
                       expected='every clause of VoronoiSpec (Properties_C16.C16_check_voronoi_sound) holds',
                       replay='echo "%s" | %s' % (rr['harness_line'], S['hexe']), driver_line=(rr['driver_line'] or '')[:6000], why=r['why']), msg=r['why'])
    return 'VIOLATION'


DELAUNAY_SEQS = ['ET', 'TE', 'ETE', 'TET', 'ETET', 'EET', 'TTE', 'TEET']
VORONOI_SEQS = ['PL', 'LP', 'PP', 'LL', 'PLP', 'LPL']
ENV_MULTS = [1, 1, 2, 3, 5, 10, 20, 40, 100, 300, 1000]
ENV_SHAPES = ['centred', 'offset', 'hstrip', 'vstrip', 'corner', 'inside', 'overlap', 'disjoint']


def gen_clip_env(rng, pts):
    """clip envelope relative to the site extent w: m*w wide squares centred on the sites or pushed off-centre, strips that are m*w long
    and about one site extent wide, envelopes anchored at a corner of the site box, inside it, overlapping it, or disjoint from it.
    Returns (sites possibly translated so that everything stays within the 2^25 bound, env, shape, multiplier) or None."""
    xs = [p[0] for p in pts]; ys = [p[1] for p in pts]
    x0, x1, y0, y1 = min(xs), max(xs), min(ys), max(ys)
    w = max(1, x1 - x0, y1 - y0)
    shape = rng.choice(ENV_SHAPES); m = rng.choice(ENV_MULTS)
    while m > 1 and (2 * m + 3) * w > 2 * LIM:
        m = max(1, m // 3)
    e = m * w
    if shape == 'centred':  env = (x0 - e, y0 - e, x1 + e, y1 + e)
    elif shape == 'offset': env = (x0 - rng.randint(0, e), y0 - rng.randint(0, e // 4 + 1), x1 + 2 * e, y1 + rng.randint(0, e))
    elif shape == 'hstrip': env = (x0 - e, y0 - rng.randint(0, w), x1 + e, y1 + rng.randint(0, w))
    elif shape == 'vstrip': env = (x0 - rng.randint(0, w), y0 - e, x1 + rng.randint(0, w), y1 + e)
    elif shape == 'corner': env = (x0, y0, x1 + 2 * e, y1 + 2 * e) if rng.random() < 0.5 else (x0 - 2 * e, y0 - 2 * e, x1, y1)
    elif shape == 'inside': env = (x0 + (x1 - x0) // 4, y0 + (y1 - y0) // 4, x1 - (x1 - x0) // 4, y1 - (y1 - y0) // 4)
    elif shape == 'overlap': env = (x0 + w, y0 - 3 * e, x1 + 7 * e, y1)
    else: env = (x1 + 2 * e, y1 + 2 * e, x1 + 4 * e + 1, y1 + 3 * e + 1)
    if env[2] <= env[0] or env[3] <= env[1]:
        env = (env[0], env[1], env[0] + 1 + max(0, env[2] - env[0]), env[1] + 1 + max(0, env[3] - env[1]))
    lo_x, hi_x = min(x0, env[0]), max(x1, env[2]); lo_y, hi_y = min(y0, env[1]), max(y1, env[3])
    if hi_x - lo_x > 2 * LIM or hi_y - lo_y > 2 * LIM:
        return None
    dx = 0 if (-LIM <= lo_x and hi_x <= LIM) else (-LIM - lo_x if lo_x < -LIM else LIM - hi_x)
    dy = 0 if (-LIM <= lo_y and hi_y <= LIM) else (-LIM - lo_y if lo_y < -LIM else LIM - hi_y)
    pts = [(x + dx, y + dy) for x, y in pts]
    env = (env[0] + dx, env[1] + dy, env[2] + dx, env[3] + dy)
    return pts, env, shape, m


def do_voronoi(S, rng, n):
    ctx, st = S['ctx'], S['st']
    cases = []; info = {}
    for _ in range(n):
        fam, pts = make_site_case(rng, True, [f for f in SITE_FAMILIES if f != 'tiny'] + ['tiny'])
        if len(pts) > 40: pts = pts[:40]
        flags = rng.choice([0, 0, 0, 2, 2, 1, 3])
        if (flags & 2) and rng.random() < 0.85:
            pts = list(dict.fromkeys(pts))
        k = rng.choice([0, 0, 0, 1, -3, 20, -20])
        env = None; shape = 'none'; mult = 0
        if rng.random() < 0.6:
            g = gen_clip_env(rng, pts)
            if g is not None:
                pts, env, shape, mult = g
        gt = rng.choice(['M', 'M', 'L', 'C', 'X', 'Z', 'Y'])
        if rng.random() < 0.3:       # several requests on ONE VoronoiDiagramBuilder (C++ API)
            gt += ':' + rng.choice(VORONOI_SEQS)
        cases.append((fam, pts, 0, k, flags, env, gt)); info[len(cases) - 1] = (shape, mult)
    res = eval_voronoi(S, cases)
    for ci, r in enumerate(res):
        fam, pts, tol, k, flags, env, gt = r['case']
        st.inc('voronoi', 'family', fam)
        if env: st.inc('voronoi', 'env_shape', info[ci][0]); st.inc('voronoi', 'env_multiplier', str(info[ci][1]))
        st.inc('voronoi', 'env', 'user' if env else 'default'); st.inc('voronoi', 'ordered', 'yes' if flags & 2 else 'no')
        st.inc('voronoi', 'edges_only', 'yes' if flags & 1 else 'no'); st.inc('voronoi', 'requests', gt.split(':')[1] if ':' in gt else 'C API')
        ctx.count(('V', r['harness_line']), r.get('ncells', 0) >= 2)
        if r['verdict'] == 'VIOLATION':
            r['verdict'] = report_voronoi(S, r)
        st.inc('voronoi', 'verdict', r['verdict'])
        if S['nviol'] > 8:
            return
    for r in res[:1]:
        ctx.sample(r['harness_line'][:300])
