"""C02 — all evaluation paths of a topological question agree, for arbitrary doubles.

proof:  coq/theories/C01/{IMGen,IMLaws,Pred,PredSound}.v, Properties_C02.v — the generated IntersectionMatrix units equal the
        pattern-set definitions on every integer matrix; the definitions obey the converse / transpose / negation /
        implication laws; every named RelateNG predicate (generated units, protocol state machine) reports its definition
        on the final matrix whatever early exit fires.
tie:    translator units regenerated from /repo (IM_*, BP_*, IP_*, RP_*); extracted specification (and generated) functions
        applied to the matrix the implementation itself returns predict every other path; harness/c02.c asks them all.
"""
import os, random
from vlib.core import ROOT, BUILD
from gen import geoms as G

NAMES = ['intersects', 'disjoint', 'touches', 'crosses', 'within', 'contains', 'overlaps', 'equals', 'covers', 'coveredBy']
SYM = 'TF*012'


def patterns_around(rng, m):
    """patterns drawn around the matrix: each entry replaced by T / F / * / its value / value±1"""
    out = []
    for _ in range(4):
        p = ''
        for ch in m:
            r = rng.random()
            if r < 0.35: p += '*'
            elif r < 0.55: p += ch if ch in 'F012' else '*'
            elif r < 0.75: p += 'T'
            elif r < 0.85: p += 'F'
            else: p += rng.choice('012')
        out.append(p)
    return out


def atoms_of(g):
    if g[0] in ('MultiPoint', 'MultiLineString', 'MultiPolygon', 'GeometryCollection'):
        out = []
        for e in (g[1] or []):
            out += atoms_of(e if isinstance(e, tuple) else ({'MultiPoint': 'Point', 'MultiLineString': 'LineString', 'MultiPolygon': 'Polygon'}[g[0]], e))
        return out
    return [g]


def primer_near(rng, atom):
    """WKT of a small valid geometry placed at ONE atom: a box around its envelope, a diagonal of it, or a box overlapping half of it"""
    pts = G.all_points(atom)
    if not pts: return None
    x0, x1 = min(p[0] for p in pts), max(p[0] for p in pts); y0, y1 = min(p[1] for p in pts), max(p[1] for p in pts)
    w, hgt = (x1 - x0) or 1, (y1 - y0) or 1
    k = rng.random()
    f = lambda v: repr(float(v)) if isinstance(v, float) else str(v)
    if k < 0.4:
        a, b, c, d = x0 - w / 4, y0 - hgt / 4, x1 + w / 4, y1 + hgt / 4
    elif k < 0.7:
        a, b, c, d = x0 + w / 2, y0 - hgt / 4, x1 + w / 2, y1 + hgt / 4
    else:
        return 'LINESTRING (%s %s, %s %s)' % (f(x0 - w / 4), f(y0 - hgt / 4), f(x1 + w / 4), f(y1 + hgt / 4))
    return 'POLYGON ((%s %s, %s %s, %s %s, %s %s, %s %s))' % (f(a), f(b), f(c), f(b), f(c), f(d), f(a), f(d), f(a), f(b))


def gen_pair(rng):
    R = rng.choice([4, 8, 20, 60])
    A = G.gen_geom(rng, R)
    B = G.derive(rng, A, R) if rng.random() < 0.6 else G.gen_geom(rng, R)
    kind = 'grid'
    if rng.random() < 0.5:
        f = G.to_full_precision(rng, A)
        A, B = G.map_coords(A, f), G.map_coords(B, f)
        kind = 'full'
    if rng.random() < 0.5:
        A, B = B, A
    return kind, A, B


def nest_pair(rng):
    """A = polygon with holes; B assembled from pieces placed relative to A's holes (inside a hole, around a hole without
    touching it, between holes, across the shell) as Polygon / MultiPolygon / collection / lines / points.
    Aimed at containment short-cuts that look at one representative vertex per element."""
    W = rng.choice([40, 60, 100]); H = rng.choice([40, 60])
    shell = G.rect_ring(0, 0, W, H) if rng.random() < 0.5 else [(0, 0), (W, 0), (W + 5, H // 2), (W, H), (0, H), (-5, H // 2), (0, 0)]
    nh = rng.randint(1, 2)
    holes, centres = [], []
    for i in range(nh):
        cx = (i + 1) * W // (nh + 1); cy = H // 2
        r = rng.randint(2, 4)
        holes.append(G.rect_ring(cx - r, cy - r, cx + r, cy + r)[::-1]); centres.append((cx, cy, r))
    A = ('Polygon', [shell] + holes)
    pieces = []
    for _ in range(rng.randint(1, 3)):
        cx, cy, r = rng.choice(centres)
        k = rng.random()
        if k < 0.3:      # surrounds the hole, no contact
            m = r + rng.randint(1, 3)
            pieces.append(('Polygon', [G.rect_ring(cx - m, cy - m, cx + m, cy + m)]))
        elif k < 0.45:   # annulus around the hole (own hole strictly larger than A's hole): really inside A
            m = r + rng.randint(3, 5)
            pieces.append(('Polygon', [G.rect_ring(cx - m, cy - m, cx + m, cy + m), G.rect_ring(cx - r - 1, cy - r - 1, cx + r + 1, cy + r + 1)[::-1]]))
        elif k < 0.6:    # inside the hole
            pieces.append(('Polygon', [G.rect_ring(cx - 1, cy - 1, cx + 1, cy + 1)]))
        elif k < 0.8:    # small piece in A's interior away from holes
            x = rng.choice([2, W - 6]); y = rng.choice([2, H - 6])
            pieces.append(('Polygon', [G.rect_ring(x, y, x + 3, y + 3)]))
        else:            # line through the hole / point in the hole
            pieces.append(('LineString', [(cx - r - 2, cy), (cx + r + 2, cy)]) if rng.random() < 0.5 else ('Point', (cx, cy)))
    polys = [q for q in pieces if q[0] == 'Polygon']
    # keep polygonal pieces pairwise disjoint (valid MultiPolygon): drop later ones that meet earlier envelopes
    kept = []
    for q in polys:
        xs = [p[0] for p in q[1][0]]; ys = [p[1] for p in q[1][0]]
        e = (min(xs), max(xs), min(ys), max(ys))
        if all(e[1] < f[0] or f[1] < e[0] or e[3] < f[2] or f[3] < e[2] for f in [k2[1] for k2 in kept]):
            kept.append((q, e))
    polys = [k2[0] for k2 in kept]
    others = [q for q in pieces if q[0] != 'Polygon']
    form = rng.random()
    if polys and form < 0.45:
        B = ('MultiPolygon', polys)
    elif polys and form < 0.6:
        B = polys[0]
    elif form < 0.8:
        B = ('GeometryCollection', polys + others) if (polys or others) else ('Point', (1, 1))
    else:
        B = others[0] if others else (polys[0] if polys else ('Point', (1, 1)))
    return A, B


def lineal_cover_pair(rng):
    """B = a polyline; A = multi-line made of pieces lying ON B (sub-segments between lattice points of B's segments) and
    pieces disjoint from B but inside env(B). Aimed at short-cuts that skip exterior checks for one operand."""
    n = rng.randint(2, 4)
    pts = [(0, 0)]
    for _ in range(n):
        dx, dy = rng.choice([(10, 0), (0, 10), (10, 10), (-10, 10), (20, 0)])
        pts.append((pts[-1][0] + dx, pts[-1][1] + dy))
    B = ('LineString', pts)
    els = []
    for _ in range(rng.randint(1, 3)):
        i = rng.randrange(len(pts) - 1)
        (x0, y0), (x1, y1) = pts[i], pts[i + 1]
        t0, t1 = sorted(rng.sample(range(0, 11), 2))
        els.append(('LineString', [(x0 + (x1 - x0) * t0 // 10, y0 + (y1 - y0) * t0 // 10), (x0 + (x1 - x0) * t1 // 10, y0 + (y1 - y0) * t1 // 10)]))
    xs = [p[0] for p in pts]; ys = [p[1] for p in pts]
    for _ in range(rng.randint(0, 2)):
        x = rng.randint(min(xs), max(xs)); y = rng.randint(min(ys), max(ys))
        els.append(('LineString', [(x, y), (x + rng.choice([0, 1]), y + 1)]) if rng.random() < 0.7 else ('Point', (x, y)))
    lines = [e for e in els if e[0] == 'LineString']
    A = ('MultiLineString', lines) if all(e[0] == 'LineString' for e in els) else ('GeometryCollection', els)
    if rng.random() < 0.3 and len(lines) == 1 and len(els) == 1:
        A = lines[0]
    return A, B


def vary_rings(rng, g):
    """representation variants that leave the point set and validity unchanged: ring orientation, ring start, one
    consecutive repeated vertex (polygon rings and lines); applied to some pairs so that code conditioned on
    'CW shell', 'first vertex' or 'no repeats' is exercised with the other representation too."""
    t, d = g
    if t == 'Polygon' and d:
        out = []
        for r in d:
            r = list(r)
            if len(r) >= 4:
                if rng.random() < 0.5:
                    r = r[::-1]
                if rng.random() < 0.5:
                    k = rng.randrange(len(r) - 1); core = r[:-1]; core = core[k:] + core[:k]; r = core + [core[0]]
                if rng.random() < 0.35:
                    k = rng.randrange(len(r)); r = r[:k + 1] + [r[k]] + r[k + 1:]
            out.append(r)
        return (t, out)
    if t == 'LineString' and d and rng.random() < 0.2:
        k = rng.randrange(len(d)); return (t, d[:k + 1] + [d[k]] + d[k + 1:])
    if t in ('MultiPolygon', 'MultiLineString', 'GeometryCollection'):
        return (t, [vary_rings(rng, x) for x in d])
    return g


def notch_holes_pair(rng):
    """A = polygon with a concave (U / L shaped) hole and a small hole sitting in its notch, so that hole ENVELOPES nest or
    overlap although the holes are disjoint; holes in every order. B = points / lines / small polygons placed in, on and
    next to each hole. Aimed at loops over holes that stop at the first hole whose envelope matches."""
    W, H = 60, 60
    shell = G.rect_ring(0, 0, W, H)
    if rng.random() < 0.5:      # U-shaped hole opening upwards, notch x in (24,36), y in (20,40)
        big = [(10, 10), (50, 10), (50, 40), (36, 40), (36, 20), (24, 20), (24, 40), (10, 40), (10, 10)]
    else:                       # L-shaped hole, notch = upper right quadrant of its envelope
        big = [(10, 10), (50, 10), (50, 20), (24, 20), (24, 40), (10, 40), (10, 10)]
    sx, sy = rng.randint(26, 30), rng.randint(24, 32)
    small = G.rect_ring(sx, sy, sx + 4, sy + 4)
    holes = [big[::-1], small[::-1]]
    if rng.random() < 0.4:
        holes.append(G.rect_ring(3, 50, 6, 53)[::-1])
    rng.shuffle(holes)
    A = ('Polygon', [shell] + holes)
    cands = [('Point', (sx + 2, sy + 2)), ('Point', (sx, sy + 2)), ('Point', (sx, sy)), ('Point', (30, 22)), ('Point', (15, 15)),
             ('Point', (24, 30)), ('Point', (55, 55)),
             ('LineString', [(sx + 1, sy + 1), (sx + 3, sy + 3)]), ('LineString', [(sx, sy), (sx + 4, sy)]), ('LineString', [(sx - 1, sy + 2), (sx + 5, sy + 2)]),
             ('Polygon', [G.rect_ring(sx + 1, sy + 1, sx + 3, sy + 3)]), ('Polygon', [G.rect_ring(sx, sy, sx + 2, sy + 2)]),
             ('Polygon', [[(sx, sy), (sx + 4, sy + 2), (sx, sy + 4), (sx, sy)]]),           # inside the small hole, first two vertices on its ring
             ('Polygon', [G.rect_ring(sx - 1, sy - 1, sx + 5, sy + 5)]), ('Polygon', [G.rect_ring(12, 12, 20, 18)])]
    k = rng.random()
    if k < 0.55:
        B = rng.choice(cands)
    elif k < 0.75:
        B = ('MultiPoint', rng.sample([c for c in cands if c[0] == 'Point'], 3))
    else:
        B = ('GeometryCollection', [rng.choice(cands), ('Point', (55, 5))])
    return A, B


def mixed_gc_pair(rng):
    """B = a collection of elements of DIFFERENT dimensions of which exactly one interacts with A (the others are far away):
    a point on the interior of one of A's segments / on a later vertex, a polygon strictly containing A, a polygon
    overlapping A, a line crossing A. Aimed at prepared short-cuts that decide by the collection's dimension or by its
    first / areal element only."""
    if rng.random() < 0.5:
        n = rng.randint(2, 4); pts = [(0, 0)]
        for _ in range(n):
            dx, dy = rng.choice([(10, 0), (0, 10), (10, 10), (-10, 10), (20, 0), (10, -10)])
            pts.append((pts[-1][0] + dx, pts[-1][1] + dy))
        if rng.random() < 0.35:
            pts = pts + [pts[0]]          # closed line: its end is in the line interior
        A = ('LineString', pts)
    else:
        A = ('Polygon', [rng.choice([[(4, 4), (6, 4), (5, 6), (4, 4)], [(2, 2), (8, 2), (8, 8), (5, 5), (2, 8), (2, 2)], G.rect_ring(3, 3, 7, 8)])])
        pts = A[1][0][:-1]
    xs = [p[0] for p in pts]; ys = [p[1] for p in pts]
    x0, x1, y0, y1 = min(xs), max(xs), min(ys), max(ys)
    far = 200
    k = rng.random()
    i = rng.randrange(len(pts) - 1) if A[0] == 'LineString' else rng.randrange(len(pts))
    a, b = pts[i], pts[(i + 1) % len(pts)]
    if k < 0.3:      # point on a segment interior (midpoint; exact for even sums, else a vertex other than the first)
        hit = ('Point', ((a[0] + b[0]) // 2, (a[1] + b[1]) // 2)) if (a[0] + b[0]) % 2 == 0 and (a[1] + b[1]) % 2 == 0 else ('Point', b)
    elif k < 0.5:    # polygon strictly containing A
        hit = ('Polygon', [G.rect_ring(x0 - 5, y0 - 5, x1 + 5, y1 + 5)])
    elif k < 0.65:   # polygon overlapping A's extent partly
        hit = ('Polygon', [G.rect_ring((x0 + x1) // 2, y0 - 3, x1 + 6, y1 + 3)])
    elif k < 0.8:    # line crossing A's extent
        hit = ('LineString', [(x0 - 4, (y0 + y1) // 2), (x1 + 4, (y0 + y1) // 2 + 1)])
    elif k < 0.9:    # point on a line end / on a vertex that is not the first
        hit = ('Point', rng.choice([pts[0], pts[-1]]) if A[0] == 'LineString' else pts[len(pts) // 2])
    else:            # nothing interacts
        hit = ('Point', (far, -far))
    others = [('Polygon', [G.rect_ring(far, far, far + 6, far + 4)]), ('Point', (-far, far)), ('LineString', [(-far, -far), (-far + 5, -far + 2)]),
              ('Polygon', [[(far, -far), (far + 8, -far), (far + 4, -far + 5), (far, -far)]])]
    rng.shuffle(others)
    extra = [o for o in others if o[0] != hit[0]][:rng.randint(1, 2)]
    elems = [hit] + extra
    if A[0] == 'LineString' and hit[0] == 'Point' and rng.random() < 0.5:
        elems.append(('Point', pts[-1] if hit[1] == pts[0] else pts[0]))     # points on both ends of the line
    rng.shuffle(elems)
    return A, ('GeometryCollection', elems)


def structured_pair(rng):
    k = rng.random()
    A, B = nest_pair(rng) if k < 0.3 else lineal_cover_pair(rng) if k < 0.55 else notch_holes_pair(rng) if k < 0.75 else mixed_gc_pair(rng)
    kind = 'structured'
    if rng.random() < 0.4:
        f = G.to_full_precision(rng, A)
        A, B = G.map_coords(A, f), G.map_coords(B, f)
    if rng.random() < 0.5:
        A, B = B, A
    return kind, A, B


def _seg_hits(p, q, a, b):
    """exact: does the closed segment pq meet the closed segment ab (integer coordinates)"""
    def orient(u, v, w):
        d = (v[0] - u[0]) * (w[1] - u[1]) - (v[1] - u[1]) * (w[0] - u[0])
        return (d > 0) - (d < 0)
    def onseg(u, v, w):
        return min(u[0], v[0]) <= w[0] <= max(u[0], v[0]) and min(u[1], v[1]) <= w[1] <= max(u[1], v[1])
    o1, o2, o3, o4 = orient(p, q, a), orient(p, q, b), orient(a, b, p), orient(a, b, q)
    if o1 != o2 and o3 != o4:
        return True
    return (o1 == 0 and onseg(p, q, a)) or (o2 == 0 and onseg(p, q, b)) or (o3 == 0 and onseg(a, b, p)) or (o4 == 0 and onseg(a, b, q))


def rect_edge_crosser(rng, ring):
    """a line or thin triangle whose only contact with the rectangle boundary is ONE chosen edge, strictly between its end
    points, coming from outside a corner region (so the envelopes straddle a corner and no short-cut by envelope or by
    corner containment decides): aimed at per-edge loops of the rectangle fast paths (first / last / closing edge)."""
    xs = [p[0] for p in ring]; ys = [p[1] for p in ring]
    x0, x1, y0, y1 = min(xs), max(xs), min(ys), max(ys)
    if x1 - x0 < 2 or y1 - y0 < 2:
        return None
    edges = [(ring[i], ring[i + 1]) for i in range(4)]
    k = rng.randrange(4)
    a, b = edges[k]
    for _ in range(200):
        pin = (rng.randint(x0 + 1, x1 - 1), rng.randint(y0 + 1, y1 - 1)) if rng.random() < 0.7 else None
        span = max(x1 - x0, y1 - y0)
        if a[0] == b[0]:      # vertical edge at x = a[0]; outside is to the left (x0) or right (x1)
            sgn = -1 if a[0] == x0 else 1
            pout = (a[0] + sgn * rng.randint(1, span), rng.choice([y0 - rng.randint(1, span), y1 + rng.randint(1, span), rng.randint(y0, y1)]))
        else:
            sgn = -1 if a[1] == y0 else 1
            pout = (rng.choice([x0 - rng.randint(1, span), x1 + rng.randint(1, span), rng.randint(x0, x1)]), a[1] + sgn * rng.randint(1, span))
        if pin is None:       # touch only: end exactly on the edge, strictly inside it
            if a[0] == b[0]:
                if abs(a[1] - b[1]) < 2: continue
                pin = (a[0], rng.randint(min(a[1], b[1]) + 1, max(a[1], b[1]) - 1))
            else:
                if abs(a[0] - b[0]) < 2: continue
                pin = (rng.randint(min(a[0], b[0]) + 1, max(a[0], b[0]) - 1), a[1])
        if any(_seg_hits(pin, pout, e[0], e[1]) for j, e in enumerate(edges) if j != k):
            continue
        if not _seg_hits(pin, pout, a, b):
            continue
        if rng.random() < 0.5:
            return ('LineString', [pout, pin])
        # thin triangle: second outside vertex next to the first, on the same side of the edge's line
        d = (0, rng.choice([-1, 1])) if a[0] == b[0] else (rng.choice([-1, 1]), 0)
        pout2 = (pout[0] + d[0], pout[1] + d[1])
        if any(_seg_hits(pin, pout2, e[0], e[1]) for j, e in enumerate(edges) if j != k) or pout2 == pin:
            continue
        tri = [pout, pout2, pin, pout]
        area2 = (pout2[0] - pout[0]) * (pin[1] - pout[1]) - (pout2[1] - pout[1]) * (pin[0] - pout[0])
        if area2 == 0:
            continue
        return ('Polygon', [tri])
    return None


def rect_corner_lurker(rng, ring):
    """a line or thin triangle DISJOINT from the rectangle whose envelope nevertheless overlaps the rectangle's envelope:
    it passes a corner on the outside, from beside one adjacent side to beyond the other. Aimed at envelope-only
    short-cuts of the rectangle fast paths (an element "bisected" by the rectangle must intersect; this one is not)."""
    xs = [p[0] for p in ring]; ys = [p[1] for p in ring]
    x0, x1, y0, y1 = min(xs), max(xs), min(ys), max(ys)
    edges = [(ring[i], ring[i + 1]) for i in range(4)]
    span = max(x1 - x0, y1 - y0, 2)
    for _ in range(200):
        cx, sx = rng.choice([(x0, -1), (x1, 1)]); cy, sy = rng.choice([(y0, -1), (y1, 1)])
        # P beside the vertical side (outside in x, inside the rectangle's y-range side of the corner), Q beyond the horizontal side
        P = (cx + sx * rng.randint(1, span), cy - sy * rng.randint(0, max(1, (y1 - y0) - 1)))
        Q = (cx - sx * rng.randint(0, max(1, (x1 - x0) - 1)), cy + sy * rng.randint(1, span))
        if any(_seg_hits(P, Q, e[0], e[1]) for e in edges):
            continue
        if x0 <= P[0] <= x1 and y0 <= P[1] <= y1:
            continue
        if rng.random() < 0.6:
            return ('LineString', [P, Q] if rng.random() < 0.5 else [Q, P])
        R = (P[0] + sx, P[1] + sy * 0)          # third vertex next to P, still outside
        R = (Q[0], Q[1] + sy) if R == P else R
        tri = [P, Q, R, P]
        if any(_seg_hits(Q, R, e[0], e[1]) or _seg_hits(R, P, e[0], e[1]) for e in edges):
            continue
        area2 = (Q[0] - P[0]) * (R[1] - P[1]) - (Q[1] - P[1]) * (R[0] - P[0])
        if area2 == 0:
            continue
        # the rectangle must not be inside the triangle: its corners are on the outside of PQ by construction when no edge is hit
        return ('Polygon', [tri])
    return None


def rect_boundary_runner(rng, ring):
    """a line (or multi-line) lying entirely IN the rectangle's boundary: pieces of one edge or running round corners, with
    consecutive repeated vertices (valid lines) on any edge. contains / covers differ on it (boundary only), and the
    rectangle short-cuts treat it edge by edge."""
    edges = [(ring[i], ring[i + 1]) for i in range(4)]
    def on_edge(e, t_num, t_den):
        (ax, ay), (bx, by) = e
        return (ax + (bx - ax) * t_num // t_den, ay + (by - ay) * t_num // t_den)
    lines = []
    for _ in range(rng.randint(1, 2)):
        k = rng.randrange(4)
        pts = []
        den = 4
        a, b = sorted(rng.sample(range(0, den + 1), 2))
        for t in range(a, b + 1):
            q = on_edge(edges[k], t, den)
            if not pts or pts[-1] != q:
                pts.append(q)
        if rng.random() < 0.3 and b == den:          # run round the corner onto the next edge
            q = on_edge(edges[(k + 1) % 4], rng.randint(1, den), den)
            if q != pts[-1]:
                pts.append(q)
        if len(pts) < 2:
            continue
        # repeated vertices (still a valid line)
        for _ in range(rng.randint(0, 2)):
            i = rng.randrange(len(pts)); pts = pts[:i + 1] + [pts[i]] + pts[i + 1:]
        lines.append(('LineString', pts))
    if not lines:
        return None
    return lines[0] if len(lines) == 1 else ('MultiLineString', lines)


def rect_pairs(rng):
    """axis-parallel rectangle vs the same polygon with one redundant collinear vertex: every answer must coincide"""
    x0, y0 = rng.randint(-50, 50), rng.randint(-50, 50)
    w, h = rng.randint(1, 30), rng.randint(1, 30)
    f = G.to_full_precision(rng, None) if rng.random() < 0.5 else (lambda p: p)
    ring = G.rect_ring(x0, y0, x0 + w, y0 + h)
    # any corner may start the ring and either orientation: which edge is first / last / closing varies
    k = rng.randrange(4)
    ring = ring[k:4] + ring[:k]; ring.append(ring[0])
    if rng.random() < 0.5:
        ring = ring[::-1]
    a, b = ring[0], ring[1]
    mid = ((a[0] + b[0]) / 2 if (a[0] + b[0]) % 2 else (a[0] + b[0]) // 2, (a[1] + b[1]) / 2 if (a[1] + b[1]) % 2 else (a[1] + b[1]) // 2)
    ring2 = [ring[0], mid] + ring[1:]
    k = rng.random()
    other = rect_edge_crosser(rng, ring) if k < 0.35 else rect_corner_lurker(rng, ring) if k < 0.5 else rect_boundary_runner(rng, ring) if k < 0.65 else None
    if other is None:
        other = G.derive(rng, ('Polygon', [ring]), max(w, h)) if rng.random() < 0.7 else G.gen_geom(rng, 40)
    R1 = G.map_coords(('Polygon', [ring]), f); R2 = G.map_coords(('Polygon', [ring2]), f)
    return R1, R2, G.map_coords(other, f)


def parse_out(o):
    d = {}
    for tok in o.split(' '):
        if '=' in tok:
            k, v = tok.split('=', 1); d[k] = v
    return d


def run(ctx):
    ctx.cov['rule'] = ('pairs of valid geometries (all type combinations, grid and full-precision doubles at magnitudes 1e-3..1e9 with offsets, derived '
                       'contacts, rectangles); non-trivial = envelopes interact and the relate matrix is not the disjoint one; distinct by (WKT A, WKT B)')
    ctx.assumptions += ['the truth of the matrix itself is not decided here (C01); every other path is predicted from the matrix the implementation returns',
                        'envelope predicates and the protocol order of RelateNG::evaluate are hand-modelled (Lib/GenPreludePred.v, C01/Pred.v)',
                        'prepared classes and rectangle fast paths have no independent model: their agreement is checked, not proved']
    ok_build = ctx.build_repo('rel')
    from translator.units import BY_PROPERTY
    ctx.translate(BY_PROPERTY.get('C01', []))
    ok_coq, ax = ctx.coq_build('Properties_C02')
    drv = ctx.ocaml_driver('C02')
    hexe = os.path.join(BUILD, 'bin', 'c02')
    if not ok_build or not ctx.cxx(os.path.join(ROOT, 'harness/c02.c'), hexe, 'rel') or not drv:
        return
    n = 3000 if ctx.quick else 60000
    rng = random.Random(ctx.seed)
    cases = []
    corpus = os.path.join(ROOT, 'gen/corpus/C02.txt')
    if os.path.exists(corpus):
        for l in open(corpus):
            l = l.strip()
            if l and not l.startswith('#'):
                a, b = l.split('|')[:2]
                try:
                    da, db = G.dim_real(G.from_wkt(a)), G.dim_real(G.from_wkt(b))
                except Exception:
                    da = db = None        # not in the WKT subset the model side needs dimensions for: crash / agreement only
                cases.append(('corpus', a, b, da, db))
    for _ in range(n):
        kind, A, B = gen_pair(rng) if rng.random() < 0.6 else structured_pair(rng)
        if rng.random() < 0.35:
            A, B = vary_rings(rng, A), vary_rings(rng, B)
        cases.append((kind, G.to_wkt(A), G.to_wkt(B), G.dim_real(A), G.dim_real(B)))
    nrect = n // 10
    rects = []
    for _ in range(nrect):
        R1, R2, other = rect_pairs(rng)
        d = G.dim_real(other)
        i1 = len(cases); cases.append(('rect', G.to_wkt(R1), G.to_wkt(other), 2, d))
        i2 = len(cases); cases.append(('rect+v', G.to_wkt(R2), G.to_wkt(other), 2, d))
        i3 = len(cases); cases.append(('rect', G.to_wkt(other), G.to_wkt(R1), d, 2))
        i4 = len(cases); cases.append(('rect+v', G.to_wkt(other), G.to_wkt(R2), d, 2))
        rects += [(i1, i2), (i3, i4)]
    # first pass: matrices; second pass with patterns drawn around each matrix
    lines = ['%d|%s|%s|' % (rng.randint(0, 2 ** 31), a, b) for _, a, b, _, _ in cases]
    out1 = ctx.run_lines([hexe], lines, timeout=900)
    pats = []
    for i, o in enumerate(out1):
        d = parse_out(o)
        pats.append(patterns_around(rng, d['R']) if 'R' in d and len(d['R']) == 9 else [])
    # primers: for part of the cases the prepared geometries first answer a predicate against OTHER geometries placed at single
    # elements of A and of B (so that their envelopes miss the remaining elements) before they are asked about the pair itself
    primers = {}
    prng = random.Random(ctx.seed + 4242)
    for i, (kind, a, b, dA, dB) in enumerate(cases):
        if kind == 'corpus' or prng.random() > 0.45:
            continue
        ps = []
        for w in (a, b):
            try:
                g = G.from_wkt(w)
            except Exception:
                continue
            ats = list(G.atoms(g))
            prng.shuffle(ats)
            for at in ats[:2]:
                pr = primer_near(prng, at)
                if pr: ps.append(pr)
        if ps:
            primers[i] = ps
    lines2 = [l + ','.join(p) + (('|' + ';'.join(primers[i])) if i in primers else '') for i, (l, p) in enumerate(zip(lines, pats))]
    out = ctx.run_lines([hexe], lines2, timeout=900)
    dist = {'kind': {}, 'matrix': {}, 'dims': {}, 'invalid': 0}
    mlines, midx = [], []
    for i, o in enumerate(out):
        d = parse_out(o)
        kind, a, b, dA, dB = cases[i]
        if o.startswith('CRASH') or o == 'TIMEOUT':
            ctx.violation('crash_%d' % i, dict(A=a, B=b, output=o, replay='echo "%s" | %s' % (lines2[i], hexe)), msg='harness call crashed / hung: ' + o[:200])
            continue
        if 'R' not in d:
            dist['invalid'] += 1
            continue
        if dA is None:
            continue
        mlines.append('%s %d %d %s' % (d['R'], dA, dB, ','.join(pats[i]))); midx.append(i)
    model = ctx.run_lines([drv], mlines, timeout=900)
    nviol = 0
    for mo, i in zip(model, midx):
        kind, a, b, dA, dB = cases[i]
        d = parse_out(out[i]); m = parse_out(mo)
        R = d['R']
        nontriv = R[:2] + R[3:5] != 'FFFF'
        ctx.count((a, b), nontriv)
        dist['kind'][kind] = dist['kind'].get(kind, 0) + 1
        dist['matrix'][R] = dist['matrix'].get(R, 0) + 1
        dist['dims']['%d%d' % (dA, dB)] = dist['dims'].get('%d%d' % (dA, dB), 0) + 1
        bad = []
        if any(m[k][0] != m[k][1] for k in NAMES):
            ctx.broken.append(dict(kind='correspondence', name='generated IM unit vs specification (extracted)', detail='%s dims %d %d: %s' % (R, dA, dB, mo)))
        if 'prime' in d and not d['prime'].startswith('0/'):
            bad.append('a prepared geometry reused for other geometries first: %s of its answers on the primers differ from the unprepared calls' % d['prime'])
        if d['RT'] != m['T']:
            bad.append('relate(B,A)=%s is not the transpose %s of relate(A,B)=%s' % (d['RT'], m['T'], R))
        if d['PR'] != R:
            bad.append('prepared relate %s != relate %s' % (d['PR'], R))
        for k in NAMES:
            exp = m[k][0]
            plain, prepA, convBA, prepB = d[k]
            both_empty = d.get('empty') == '11'
            if plain != exp:
                if k == 'equals' and both_empty and plain == '1':
                    kf = ctx.known_match(lambda e: e.get('id') == 'F20')
                    if kf:
                        ctx.known_hit(kf); continue
                bad.append('%s(A,B)=%s but its DE-9IM definition on relate(A,B)=%s (dims %d,%d) is %s' % (k, plain, R, dA, dB, exp))
            if prepA != 'x' and prepA != plain:
                bad.append('prepared %s=%s differs from plain %s' % (k, prepA, plain))
            if convBA != plain:
                bad.append('%s(A,B)=%s but its converse asked as (B,A) gives %s' % (k, plain, convBA))
            if prepB != 'x' and prepB != plain:
                bad.append('%s(A,B)=%s but prepared(B) converse gives %s' % (k, plain, prepB))
        if d['disjoint'][0] == d['intersects'][0]:
            bad.append('disjoint == intersects')
        if d['containsProperly'] != m['containsProperly']:
            bad.append('prepared containsProperly=%s, pattern T**FF*FF* on %s says %s' % (d['containsProperly'], R, m['containsProperly']))
        if 'xy' in d and (d['xy'][0] != d['contains'][1] or d['xy'][1] != d['intersects'][1]):
            bad.append('XY point forms %s differ from prepared contains/intersects %s%s' % (d['xy'], d['contains'][1], d['intersects'][1]))
        if d.get('empty', '00')[0] == '0' and d['self'] != '111111':
            bad.append('non-empty A is not equal to / covering / covered by itself or its clone: %s' % d['self'])
        if 'pat' in d and d['pat']:
            got = [t for t in d['pat'].split(',') if t]
            for t, e in zip(got, m.get('pat', '')):
                p, v = t.split(':')
                if any(x != e for x in v):
                    bad.append('pattern %s on %s: relatePattern/patternMatch/prepared = %s, definition says %s' % (p, R, v, e))
        if bad:
            nviol += 1
            ctx.violation('pair_%d' % i, dict(kind=kind, A=a, B=b, dims=[dA, dB], implementation=out[i], model=mo, why=bad,
                                              replay='echo "%s" | %s' % (lines2[i], hexe)), msg=bad[0])
            if nviol > 5:
                break
    # rectangle fast paths: identical answers for the rectangle and the same polygon with a redundant vertex
    for i1, i2 in rects:
        d1, d2 = parse_out(out[i1]), parse_out(out[i2])
        if 'R' in d1 and 'R' in d2:
            for k in ['R', 'PR'] + NAMES:
                if d1[k] != d2[k]:
                    ctx.violation('rect_%d' % i1, dict(A1=cases[i1][1], B1=cases[i1][2], A2=cases[i2][1], B2=cases[i2][2], out1=out[i1], out2=out[i2],
                                                     replay='echo "%s" | %s' % (lines2[i1], hexe)),
                                  msg='rectangle and the same polygon with a redundant vertex disagree on %s: %s vs %s' % (k, d1[k], d2[k]))
                    break
    ctx.cov['traces_validated_against_impl'] = len(midx)
    ctx.notes['distribution'] = dict(kind=dist['kind'], dims=dist['dims'], invalid_or_unparsed=dist['invalid'],
                                     matrices=len(dist['matrix']), top_matrices=sorted(dist['matrix'].items(), key=lambda kv: -kv[1])[:12])
    for c in cases[:3]:
        ctx.sample('%s | %s' % (c[1][:150], c[2][:150]))
    if len(dist['matrix']) < 20:
        ctx.broken.append(dict(kind='generator', name='distribution', detail='fewer than 20 distinct matrices drawn'))
