"""C12 — any legal C API call sequence is contained: error codes, no crash, no aliasing.

proof:   coq/theories/C12/{PoolDefs,PoolProofs,Ops,ApiDefs}.v, Properties_C12.v — an object-pool state machine for the ownership
         and lifetime rules of the C API (178 modelled entry points (190 rows: the array constructors have one row per array length; the 3 interrupt functions included)); theorems: legal calls only receive live objects of the right
         kind, consumed / destroyed objects stay dead, results are fresh handles, dependencies outlive their dependents (prepared
         geometry -> base, STRtree -> items), the pool stays well formed, and EVERY program the generator emits is legal.
tie:     G  Gen/C12_api_table.v is written on every run from capi/geos_ts_c.cpp + capi/geos_c.h.in (return type, execute() overload and
            error value, documented return class of every GEOS*_r entry point); theorems over it: the error value lies outside the
            success range of the return class (errval_distinguishable), every modelled entry point is in the table with the class
            the model assumes (ops_consistent);
         M  the generator is a Gallina function of the seed, extracted; the harness executes its programs on the ASan+UBSan+LSan
            build, one child process per program, alarm per call, and checks per call: error value iff error handler called, WKB
            image of every live geometry unchanged unless the call owns / mutates it, fresh results distinct from every live
            pointer, SRID of constructive results, time; at the end everything the model says is still owned is destroyed and
            GEOS_finish_r runs under LeakSanitizer.
"""
import hashlib, json, os, re, struct, subprocess, time
from vlib.core import ROOT, BUILD, REPO, COQ


# =============================================================================================== G: the API table from the sources
def parse_api(repo):
    src = open(os.path.join(repo, 'capi/geos_ts_c.cpp')).read()
    hdr = open(os.path.join(repo, 'capi/geos_c.h.in')).read()
    # ---- definitions: return type line, then  name_r(args)  {   (inside extern "C", 4-space indent)
    pat = re.compile(r'\n    ((?:const\s+)?[A-Za-z_][\w:<> ]*?[\*\s]*)\n    (\w+_r)\s*\(([^{;]*?)\)\s*\n?\s*\{', re.S)
    defs = {}
    for m in pat.finditer(src):
        ret = ' '.join(m.group(1).split()); name = m.group(2)
        end = src.find('\n    }\n', m.end())
        body = src[m.end():end]
        ex = re.search(r'execute\(\s*extHandle\s*,\s*([^,\[\]]+?)\s*,\s*\[', body)
        ex0 = re.search(r'execute\(\s*extHandle\s*,\s*\[', body)
        deleg = re.search(r'return\s+(GEOS\w+_r)\s*\(', body)
        if ex:
            kind, err = 'errval', ex.group(1)
        elif ex0:
            kind, err = 'default', None
        elif deleg:
            kind, err = 'delegate', deleg.group(1)
        else:
            kind, err = 'custom', None
        defs[name] = dict(ret=ret, kind=kind, err=err)
    # the interruption API is global (no context argument): its three functions are defined in capi/geos_c.cpp
    src0 = open(os.path.join(repo, 'capi/geos_c.cpp')).read()
    for m in re.finditer(r'\n    ((?:const\s+)?[A-Za-z_][\w:<> ]*?[\*\s]*)\n    (GEOS_interrupt\w+)\s*\(([^{;]*?)\)\s*\n?\s*\{', src0, re.S):
        defs[m.group(2)] = dict(ret=' '.join(m.group(1).split()), kind='custom', err=None)
    # wrappers report failure like the entry point they wrap
    for name, d in defs.items():
        seen = set()
        while d['kind'] == 'delegate' and d['err'] in defs and d['err'] not in seen:
            seen.add(d['err']); t = defs[d['err']]
            d['kind'], d['err'] = t['kind'], t['err']
        if d['kind'] == 'delegate':
            d['kind'], d['err'] = 'custom', None
    # ---- documentation: the \return paragraph of every declaration; *_r declarations usually point to the plain one
    docs = {}
    for m in re.finditer(r'/\*\*(.*?)\*/\s*extern\s+([^;(]*?)GEOS_DLL\s*(\*?)\s*(\w+)\s*\(', hdr, re.S):
        doc, ret, name = m.group(1), ' '.join((m.group(2) + m.group(3)).split()), m.group(4)
        r = re.search(r'\\returns?(.*?)(?:\n\s*\*?\s*\n|\\(?:param|see|note|since|warning|deprecated|brief)|$)', doc, re.S)
        docs[name] = dict(ret=ret, text=' '.join((r.group(1) if r else '').replace('*', ' ').split()), see='\\see' in doc)
    rows = []
    for name in sorted(defs):
        d = defs[name]
        doc = docs.get(name)
        base = docs.get(name[:-2]) if name.endswith('_r') else None
        text = (doc or {}).get('text', '')
        if not text and base:
            text = base['text']
        cret = (doc or base or {}).get('ret', d['ret'])
        rows.append(dict(name=name, cret=cret, defret=d['ret'], kind=d['kind'], err=d['err'], doc=text))
    return rows


def classify(row):
    """C return type class and documented return class"""
    ret = row['cret'] if row['cret'] else row['defret']
    t = row['doc'].lower()
    if '*' in ret or ret.endswith('_t') and 'Context' in ret:
        rt = 'Tptr'
    elif re.search(r'\bchar\b', ret):
        rt = 'Tchar'
    elif re.search(r'\b(int|unsigned|size_t)\b', ret):
        rt = 'Tint'
    elif re.search(r'\bdouble\b', ret):
        rt = 'Tdouble'
    elif re.search(r'\bvoid\b', ret):
        rt = 'Tvoid'
    else:
        rt = 'Tother'
    exc2 = re.search(r'\b2 (on|for|if|in case of)( an)? (exception|error)', t)
    if rt == 'Tptr':
        rc = 'RCptr'
    elif rt == 'Tvoid':
        rc = 'RCvoid'
    elif rt == 'Tchar':
        rc = 'RCpred' if exc2 else 'RCother'
    elif rt == 'Tint':
        if re.search(r'\b0 (on|if|for)( an)? (exception|error|failure)|1 on success', t):
            rc = 'RCstatus'
        elif re.search(r'-1 (on|if|for)( an)? (exception|error|failure)|or -1\b|, -1 ', t):
            rc = 'RCcount'
        elif exc2 and re.search(r'\b1 (on|if|for) (true|a valid)|1 on true', t):
            rc = 'RCpred'
        else:
            rc = 'RCother'
    elif rt == 'Tdouble':
        rc = 'RCdist' if re.search(r'-1 (on|if|for)( an)? (exception|error)', t) else 'RCother'
    else:
        rc = 'RCother'
    return rt, rc


def errval_z(row):
    if row['kind'] == 'default' or row['err'] is None:
        return 0
    e = row['err'].strip()
    m = re.match(r'^-?\d+(\.0*)?$', e)
    if m:
        return int(float(e))
    if e in ('nullptr', 'NULL', 'false'):
        return 0
    return None


def write_api_table(rows, path):
    out = ['(* GENERATED by props/C12.py from capi/geos_ts_c.cpp and capi/geos_c.h.in — do not edit, not committed.',
           '   sha256 of the two sources: %s *)' % hashlib.sha256(open(os.path.join(REPO, 'capi/geos_ts_c.cpp'), 'rb').read() + open(os.path.join(REPO, 'capi/geos_c.h.in'), 'rb').read()).hexdigest(),
           'From Coq Require Import ZArith List String.', 'From GeosV.C12 Require Import PoolDefs ApiDefs.', 'Import ListNotations.',
           'Local Open Scope string_scope.', 'Local Open Scope Z_scope.', 'Definition api_table : list row := [']
    items = []
    for r in rows:
        rt, rc = classify(r)
        ez = errval_z(r)
        kind = {'errval': 'Eerrval', 'default': 'Edefault'}.get(r['kind'], 'Ecustom')
        if ez is None:
            kind, ez = 'Ecustom', 0
        items.append('  mkRow "%s" %s %s (%d) %s' % (r['name'], rt, kind, ez, rc))
        r['rt'], r['rc'], r['ez'], r['ekind'] = rt, rc, ez, kind
    out.append(';\n'.join(items))
    out.append('].')
    txt = '\n'.join(out) + '\n'
    os.makedirs(os.path.dirname(path), exist_ok=True)
    if not os.path.exists(path) or open(path).read() != txt:
        open(path, 'w').write(txt)
    return rows


if __name__ == '__main__':
    rows = write_api_table(parse_api(REPO), os.path.join(COQ, 'theories/Gen/C12_api_table.v'))
    import collections
    print(len(rows), collections.Counter((r['rc'], r['ekind'], r['ez']) for r in rows))
    for r in rows:
        if r['rc'] == 'RCother' and r['rt'] in ('Tchar', 'Tint', 'Tdouble'):
            print('  other:', r['name'], r['cret'], '|', r['kind'], r['err'], '|', r['doc'][:80])


# =============================================================================================== the check
def index_out_of_range(op, desc):
    """argument class of the unchecked-index findings, decided from the sizes the harness prints: {n=<parts>,m=<rings|points|dims>}"""
    m = re.match(r'(\w+)\(h\d+\{n=(-?\d+),m=(-?\d+)\}[^,)]*(?:,(-?\d+))?(?:,(-?\d+))?', desc)
    if not m:
        return False
    n, mm = int(m.group(2)), int(m.group(3))
    i1 = int(m.group(4)) if m.group(4) is not None else None
    i2 = int(m.group(5)) if m.group(5) is not None else None
    if op == 'GEOSGetGeometryN_r':
        return i1 is not None and not (0 <= i1 < n)
    if op == 'GEOSGetInteriorRingN_r':
        return i1 is not None and not (0 <= i1 < mm)
    if op == 'GEOSGeomGetPointN_r':
        return i1 is not None and not (0 <= i1 < mm)
    if op.startswith('GEOSCoordSeq_'):
        if i1 is None:
            return False
        if not (0 <= i1 < n):
            return True
        if op in ('GEOSCoordSeq_getOrdinate_r', 'GEOSCoordSeq_setOrdinate_r'):
            return i2 is not None and not (0 <= i2 < mm)
        if op in ('GEOSCoordSeq_getZ_r', 'GEOSCoordSeq_setZ_r'):
            return mm < 3
        return False
    return False


ARG_CLASSES = {'index_out_of_range': index_out_of_range}


def match_known(entry, kind, op, desc, detail):
    """known findings are keyed by (entry point, failure kind, argument class, signature of the report) — never by property alone"""
    k = entry.get('key', {})
    if not k.get('entry_point') or not re.fullmatch(k['entry_point'], op or ''):
        return False
    if 'kind' in k and not re.fullmatch(k['kind'], kind):
        return False
    if 'arg' in k and not re.search(k['arg'], desc):
        return False
    if 'arg_class' in k and not ARG_CLASSES[k['arg_class']](op, desc):
        return False
    if 'detail' in k and not re.search(k['detail'], detail):
        return False
    return True


def parse_result(line):
    if line is None:
        return dict(v='MISSING')
    if line.startswith('OK '):
        head, *soft = line.split(' | ')
        kv = dict(x.split('=', 1) for x in head[3:].split() if '=' in x)
        return dict(v='OK', kv=kv, soft=soft)
    if line.startswith('FAIL '):
        m = re.match(r'FAIL (\w+)(?: call=(-?\d+) (.*?))? :: (.*)$', line)
        if m:
            desc = m.group(3) or ''
            detail, *soft = m.group(4).split(' | ')
            op = desc.split('(')[0].strip()
            return dict(v='FAIL', kind=m.group(1), call=int(m.group(2)) if m.group(2) else -1, desc=desc, op=op, detail=detail, soft=soft)
        return dict(v='FAIL', kind='?', call=-1, desc='', op='', detail=line, soft=[])
    if line.startswith('CRASH') or line == 'TIMEOUT':
        return dict(v='FAIL', kind='harness-' + line.split(':')[0].lower(), call=-1, desc='', op='', detail=line[:300], soft=[])
    return dict(v='?', raw=line[:200])


def fill_errvals(prog, errs):
    """the driver leaves '@' where the source-level error value of the entry point goes"""
    out = []
    for c in prog.split(' ; '):
        name = c.strip().split(' ')[0]
        out.append(c.replace(' @ ', ' %d ' % errs.get(name, 0), 1))
    return ' ; '.join(out)


def seqbuf(ctx):
    """coordinate-sequence buffer calls across EVERY source x destination layout (XY, XYZ, XYM, XYZM): the call returns its result
    (each slot = what getOrdinate reports for that dimension, NaN for a dimension the sequence lacks) or its error value; it never
    writes outside the buffer and never changes the source sequence.  Under ASan."""
    exe = os.path.join(BUILD, 'bin', 'c12_seqbuf_asan')
    if not ctx.cxx(os.path.join(ROOT, 'harness/c12_seqbuf.c'), exe, 'asan'):
        return
    lines = []
    for n in (0, 1, 2, 3, 7, 64):
        for sz in (0, 1):
            for sm in (0, 1):
                for dz in (0, 1):
                    for dm in (0, 1):
                        lines.append('%d %d %d %d %d %d' % (n, sz, sm, dz, dm, ctx.rng.randint(1, 2 ** 31 - 1)))
    out = ctx.run_lines([exe], lines, timeout=300, line_timeout=20)
    nbad = 0
    for l, o in zip(lines, out):
        ctx.count(('seqbuf', l), not l.startswith('0 '))
        if o.strip() == 'OK':
            continue
        nbad += 1
        if nbad <= 4:
            n, sz, sm, dz, dm, sd = l.split()
            ctx.violation('seqbuf_%s' % l.replace(' ', '_'),
                          dict(call='GEOSCoordSeq_copyFromBuffer_r(n=%s, hasZ=%s, hasM=%s) then GEOSCoordSeq_copyToBuffer_r(hasZ=%s, hasM=%s)' % (n, sz, sm, dz, dm), input_line=l, implementation=o.strip(),
                               expected='return 1 with every slot equal to GEOSCoordSeq_getOrdinate_r of that dimension (NaN for a dimension the sequence lacks), canaries and source untouched',
                               replay='echo "%s" | %s' % (l, exe)),
                          msg='coordinate-sequence buffer copy: ' + o.strip()[:200])
    ctx.notes['seqbuf_cases'] = len(lines)


def run(ctx):
    from props.C11 import run_cases, _run_chunk
    quick = ctx.quick
    ctx.cov['rule'] = ('legal programs (theorem gen_legal) of the extracted generator: 8 literal geometries from a table of 63 WKT literals (56 pathological ones, 3 dense ones: a 64-vertex ring, 24 tiny lines, a 24-vertex zigzag (kept that small because buffering n noded parts with 100 quadrant segments costs about n^2: 95 parts take 20 to 96 s on the release build); and 4 garbage words of 900, 1100, 5000 and 70000 characters whose error text quotes them) (empties at any level, '
                       'NaN/Inf/1e300 ordinates, invalid topology, zero-length and single-point components, curved types, Z/M), then up to 40 calls over the 178 modelled entry points (190 rows: the array constructors have one row per array length; the 3 interrupt functions included) with '
                       'arguments from the pool and numeric parameters from boundary tables (NaN, +-Inf, +-0, negative, 1e300, DBL_MAX, INT_MAX/MIN, UINT_MAX, out-of-range indices and enum codes); '
                       'distinct by program text; non-trivial = at least one call beyond the literals returned an error value and at least one object was destroyed or consumed')
    ctx.assumptions += [
        'legal = the documented ownership contract as encoded in C12/Ops.v (hand-read from geos_c.h); interior pointers are never used to build dependent objects (a restriction of the generator, not of the API)',
        'tiny positive tolerances (1e-300, 1e-9) are not in the boundary table: for densify / buffer-like entry points they are legitimate requests for astronomically large outputs',
        'the array constructors (GEOSGeom_createCollection_r for every type code, createPolygon_r, createCompoundCurve_r, createCurvePolygon_r) are exercised with arrays of 0..4 live geometries of ANY type (wrong-typed elements first, in the middle, last, several), never with NULL elements; every element counts as consumed whether the call succeeds or not, LeakSanitizer decides at the end of each program; callbacks of the STRtree only read the item',
        'per-call limit 10 s of CPU time (60 s wall clock), ASan+UBSan+LSan build, allocator_may_return_null=1 (a failed allocation must surface as an exception, not as an abort)',
        'the model is not proved equal to the implementation: a wrong ownership entry in the table shows up as a leak / double free under the harness']
    ok_asan = ctx.build_repo('asan')
    table_path = os.path.join(COQ, 'theories/Gen/C12_api_table.v')
    try:
        rows = write_api_table(parse_api(REPO), table_path)
    except Exception as e:
        ctx.broken.append(dict(kind='translator', name='C12_api_table', detail=repr(e)))
        rows = []
    ctx.notes['api_table'] = dict(rows=len(rows), classified=sum(1 for r in rows if r['rc'] not in ('RCvoid', 'RCother') and r['ekind'] != 'Ecustom'),
                                  undocumented_error_value=[r['name'] for r in rows if r['rc'] == 'RCother' and r['rt'] in ('Tchar', 'Tint', 'Tdouble')][:40])
    if len(rows) < 250:
        ctx.broken.append(dict(kind='translator', name='C12_api_table', detail='only %d entry points parsed from capi/geos_ts_c.cpp' % len(rows)))
    errs = {r['name']: (r['ez'] if r['ekind'] != 'Ecustom' else 999999) for r in rows}      # 999999 = not known from the source
    ok_coq, ax = ctx.coq_build('Properties_C12')
    drv = ctx.ocaml_driver('C12')
    hexe = os.path.join(BUILD, 'bin', 'c12_asan')
    if not ok_asan or not drv or not ctx.cxx(os.path.join(ROOT, 'harness/c12.cpp'), hexe, 'asan', extra='-ldl -rdynamic'):
        return
    seqbuf(ctx)
    nprog = 2500 if quick else 15000
    seeds = []
    corpus = os.path.join(ROOT, 'gen/corpus/C12.txt')
    fixed = []
    if os.path.exists(corpus):
        for l in open(corpus):
            l = l.strip()
            if l and not l.startswith('#'):
                fixed.append(l)
    for _ in range(nprog):
        seeds.append('%d 8 %d' % (ctx.rng.getrandbits(62), ctx.rng.choice([10, 20, 30, 40, 40, 40])))
    t0 = time.time()
    progs = run_cases([drv], seeds, tmo=300, workers=4, unlimited_stack=True)
    ctx.log('generator: %d programs in %.1fs' % (len(progs), time.time() - t0))
    lines = list(fixed)
    for sd, pr in zip(seeds, progs):
        if pr is None or pr.startswith('ILLEGAL') or pr.startswith('CRASH') or pr == 'TIMEOUT' or pr == '?':
            ctx.broken.append(dict(kind='correspondence', name='generator emitted an illegal program or failed', detail='seed %s -> %s' % (sd, (pr or '')[:300])))
            continue
        lines.append(fill_errvals(pr.split(' #')[0], errs) + ' #' + pr.split(' #')[1] if ' #' in pr else fill_errvals(pr, errs))
    env = dict(os.environ, ASAN_OPTIONS='allocator_may_return_null=1:hard_rss_limit_mb=6000:detect_leaks=1:abort_on_error=0', UBSAN_OPTIONS='print_stacktrace=1')
    os.environ.update(ASAN_OPTIONS=env['ASAN_OPTIONS'], UBSAN_OPTIONS=env['UBSAN_OPTIONS'])
    t0 = time.time()
    # The programs run in batches.  A call that does not return costs its whole limit; once an entry point has timed out twice
    # outside every known-finding key (two concrete violations), the remaining programs that call it are not executed: they would
    # only repeat the same failure at the same price.  On a tree without such a failure nothing is skipped.
    known = [k for k in ctx.known if k.get('status') == 'known']
    out = []; hung = {}; nskipped = 0
    BATCH = 300
    for b0 in range(0, len(lines), BATCH):
        batch = lines[b0:b0 + BATCH]
        bad = {op_ for op_, n_ in hung.items() if n_ >= 2}
        todo = []
        for l in batch:
            names = set(c.strip().split(' ')[0] for c in l.split(' #')[0].split(' ; '))
            todo.append(None if names & bad else l)
        res = run_cases([hexe], [l for l in todo if l is not None], tmo=500, workers=6)
        it_ = iter(res)
        for l in todo:
            if l is None:
                out.append('SKIPPED'); nskipped += 1; continue
            o = next(it_); out.append(o)
            r0 = parse_result(o)
            if r0.get('v') == 'FAIL' and r0.get('kind') == 'timeout' and r0.get('op') and not any(match_known(e, 'timeout', r0['op'], r0['desc'], r0['detail']) for e in known):
                hung[r0['op']] = hung.get(r0['op'], 0) + 1
    ctx.log('implementation (asan): %d programs in %.1fs%s' % (len(lines) - nskipped, time.time() - t0, (' (%d programs skipped: they call %s, which already timed out twice)' % (nskipped, ', '.join(sorted(op_ for op_, n_ in hung.items() if n_ >= 2)))) if nskipped else ''))
    ctx.notes['programs_skipped_after_repeated_timeouts'] = dict(skipped=nskipped, entry_points=sorted(op_ for op_, n_ in hung.items() if n_ >= 2))
    opcount = {}; fails = {}; softs = {}; ncalls = nerrs = 0; slowest = {}; nintr = nafter = nintrprog = nlong = 0
    nviol = 0
    for line, o in zip(lines, out):
        if o == 'SKIPPED':
            continue
        r = parse_result(o)
        calls = line.split(' #')[0].split(' ; ')
        for c in calls:
            nm = c.strip().split(' ')[0]; opcount[nm] = opcount.get(nm, 0) + 1
        nontrivial = False
        if r['v'] == 'OK':
            kv = r['kv']; ncalls += int(kv.get('calls', 0)); nerrs += int(kv.get('errs', 0))
            nontrivial = int(kv.get('errs', 0)) > 0 and any(re.search(r' [DXpTZV]', ' ' + c.split(' ')[1]) or any(ch in c.split(' ')[1] for ch in 'DXpTZVY') for c in calls if len(c.split(' ')) > 1)
            sl = kv.get('slow', '-'); slowest[sl] = max(slowest.get(sl, 0), int(kv.get('maxms', 0)))
            nlong += int(kv.get('longmsg', 0))
            nintr += int(kv.get('intr', 0)); nafter += int(kv.get('after', 0)); nintrprog += 1 if int(kv.get('intr', 0)) > 0 else 0
        ctx.count(line, nontrivial)
        problems = []
        if r['v'] == 'FAIL':
            problems.append((r['kind'], r['op'], r['desc'], r['detail'], r.get('call', -1)))
        elif r['v'] != 'OK':
            problems.append(('harness', '', '', str(r), -1))
        for sft in r.get('soft', []):
            m = re.match(r'\s*([VS]) (-?\d+) (\S+?)\((.*?)\) (.*)$', sft)
            if m:
                problems.append(('soft:' + m.group(5).split(' ')[0].split('-')[0] if m.group(1) == 'V' else 'slow', m.group(3), m.group(3) + '(' + m.group(4) + ')', m.group(5), -1))
            else:
                problems.append(('soft', '', '', sft, -1))
        for kind, op, desc, detail, callidx in problems:
            hit = next((e for e in known if match_known(e, kind, op, desc, detail)), None)
            key = '%s %s' % (kind, op)
            fails[key] = fails.get(key, 0) + 1
            if hit:
                ctx.known_hit(hit, hit['what'])
                continue
            if kind == 'slow':
                softs[key] = softs.get(key, 0) + 1
                continue
            nviol += 1
            if nviol <= 8:
                ntmo_shrunk = getattr(ctx, '_c12_tmo', 0)
                shr = shrink_program(hexe, line, kind, op, _run_chunk, callidx) if (kind != 'timeout' or ntmo_shrunk < 3) else None
                if kind == 'timeout':
                    ctx._c12_tmo = ntmo_shrunk + 1
                pth = os.path.join(ROOT, 'replays', 'C12_prog_%s.txt' % hashlib.md5(line.encode()).hexdigest()[:12])
                open(pth, 'w').write((shr or line) + '\n')
                ctx.violation('%s_%s_%d' % (kind.replace(':', '_'), op, nviol),
                              dict(failure=kind, entry_point=op, call=desc, implementation=detail[:1500], expected='a result or the documented error value with an error message; no crash / sanitizer report / leak / hang; const inputs bit-identical; fresh results; SRID of the first argument',
                                   program=(shr or line)[:6000], replay='ASAN_OPTIONS=%s %s < %s' % (env['ASAN_OPTIONS'], hexe, pth)),
                              msg='%s in %s: %s' % (kind, desc[:200], detail[:300]))
    ctx.cov['traces_validated_against_impl'] = len(lines)
    ctx.notes['programs'] = len(lines); ctx.notes['calls_executed'] = ncalls; ctx.notes['calls_returning_error'] = nerrs
    ctx.notes['interruption'] = dict(calls_interrupted=nintr, programs_with_a_delivered_interruption=nintrprog, unasked_constructive_or_predicate_calls_after_a_delivery=nafter)
    ctx.notes['calls_failing_with_an_error_text_of_900+_characters'] = nlong
    if nlong < (40 if quick else 200):
        ctx.broken.append(dict(kind='generator', name='distribution', detail='only %d calls failed with a long error text (garbage WKT words / DE-9IM patterns of 900..70000 characters)' % nlong))
    if nintrprog < (20 if quick else 100) or nafter < (50 if quick else 300):
        ctx.broken.append(dict(kind='generator', name='distribution', detail='too few programs exercise the interruption protocol: %d with a delivered interruption, %d later unasked calls' % (nintrprog, nafter)))
    ctx.notes['failures_by_kind_and_entry_point'] = dict(sorted(fails.items(), key=lambda kv: -kv[1])[:40])
    ctx.notes['slow_calls(>2s)'] = softs
    ctx.notes['entry_points_exercised'] = len(opcount)
    ctx.notes['least_exercised'] = dict(sorted(opcount.items(), key=lambda kv: kv[1])[:10])
    for l in lines[:2]:
        ctx.sample(l[:500])
    # generator self-check: the modelled entry points must actually be reached
    try:
        allops = [l.split()[1] for l in subprocess.run([drv, 'ops'], capture_output=True, text=True, timeout=60).stdout.splitlines() if l.strip()]
    except Exception:
        allops = []
    missing = [n for n in allops if n not in opcount]
    ctx.notes['entry_points_modelled'] = len(allops); ctx.notes['never_called'] = missing[:30]
    if allops and len(missing) > (0.2 if quick else 0.02) * len(allops):
        ctx.broken.append(dict(kind='generator', name='distribution', detail='%d of %d modelled entry points were never called: %s' % (len(missing), len(allops), missing[:20])))


def shrink_program(hexe, line, kind, op, runner, callidx=-1):
    """the failing call with the calls that produced its arguments, then drop calls one by one (later calls that used a dropped
    result are skipped by the harness) while the same failure persists.  A trial of a program that hangs costs the per-call limit:
    for time-outs the trials run with a 4 s limit, few of them, and the result is confirmed once with the full limit."""
    try:
        prog, _, poolspec = line.partition(' #')
        calls = prog.split(' ; ')
        hang = kind == 'timeout'

        def fails(cs, quick_limit=False):
            old = os.environ.get('C12_CALL_TIMEOUT')
            if quick_limit:
                os.environ['C12_CALL_TIMEOUT'] = '4'
            try:
                o = runner([hexe], [' ; '.join(cs) + ' #' + poolspec], 120)[0]
            finally:
                if quick_limit:
                    if old is None:
                        os.environ.pop('C12_CALL_TIMEOUT', None)
                    else:
                        os.environ['C12_CALL_TIMEOUT'] = old
            r = parse_result(o)
            if kind.startswith('soft') or kind == 'slow':
                return any(op in s for s in r.get('soft', []))
            return r['v'] == 'FAIL' and r.get('kind') == kind and (not op or r.get('op') == op)

        def closure(cs, k):
            keep = {k}; work = [k]
            res = [re.search(r' > h(\d+)', c) for c in cs]
            while work:
                i = work.pop()
                for h in re.findall(r'\bh(\d+)\b', cs[i].split(' > ')[0]):
                    for j in range(i - 1, -1, -1):
                        if res[j] and res[j].group(1) == h:
                            if j not in keep:
                                keep.add(j); work.append(j)
                            break
            return [cs[i] for i in sorted(keep)]
        full = calls
        if 0 <= callidx < len(calls):
            cand = closure(calls, callidx)
            if len(cand) < len(calls) and fails(cand, hang):
                calls = cand
            elif hang:
                return None                     # the original program is the replay; no further trials at 10 s each
        elif hang or not fails(calls):
            return None
        i = len(calls) - 1; budget = 6 if hang else 80
        while i >= 0 and budget > 0 and len(calls) > 1:
            cand = calls[:i] + calls[i + 1:]
            budget -= 1
            if cand and fails(cand, hang):
                calls = cand
            i -= 1
        if hang and calls is not full and not fails(calls):
            return None                         # not confirmed with the full limit
        return ' ; '.join(calls) + ' #' + poolspec
    except Exception:
        return None
