(* driver for the extracted C07 models: one case per input line, one canonical result line per case.
   grid cases carry a scale exponent k (ignored here: the models work in grid units), integers in decimal;
   binary64 cases carry 16-hex-digit bit patterns.
     O k ax ay bx by cx cy            -> sign
     R k px py n x1 y1 .. xn yn       -> <I|B|E code-level> <I|B|E specification>
     P k px py nr n1 pts.. n2 pts..   -> <shell-minus-holes> <with envelope short-cuts> <even-odd over all segments>
     S k p1x p1y p2x p2y q1x q1y q2x q2y -> N | P <proper 0/1> x y w | C ax ay bx by
     C k n pts                        -> <isCCW model 0/1> <area2>
     E k p1x p1y p2x p2y q1x q1y q2x q2y -> <env_seg> <env_pt p1 p2 q1>
     OB h*6 -> <orientationIndex> <filter> ;  OP h*6 -> <index>:<filter> for the six argument orders ;  D h*4 -> sign ;  XB h*8 -> hx hy ;  DD op h*4 -> hhi hlo *)
let z = z_of_string
let rec pos_of_bits = function          (* most significant first, leading 1 *)
  | [] -> XH
  | l -> let rec go acc = function [] -> acc | b :: r -> go (if b then XI acc else XO acc) r in
         (match l with true :: r -> go XH r | _ -> failwith "pos_of_bits")
let z_of_hex s =
  let bits = ref [] in
  String.iter (fun c ->
    let v = if c >= '0' && c <= '9' then Char.code c - 48 else if c >= 'a' && c <= 'f' then Char.code c - 87
            else if c >= 'A' && c <= 'F' then Char.code c - 55 else failwith "hex" in
    bits := !bits @ [v land 8 <> 0; v land 4 <> 0; v land 2 <> 0; v land 1 <> 0]) s;
  let rec strip = function false :: r -> strip r | l -> l in
  match strip !bits with [] -> Z0 | l -> Zpos (pos_of_bits l)
let hex_of_z v =
  let rec bits p acc = match p with XH -> true :: acc | XO q -> bits q (false :: acc) | XI q -> bits q (true :: acc) in
  let l = match v with Z0 -> [] | Zpos p -> bits p [] | Zneg _ -> failwith "hex_of_z" in
  let n = List.length l in
  let l = (List.init (max 0 (64 - n)) (fun _ -> false)) @ l in
  let b = Buffer.create 16 in
  let rec go = function
    | a :: b1 :: c :: d :: r ->
      let v = (if a then 8 else 0) + (if b1 then 4 else 0) + (if c then 2 else 0) + (if d then 1 else 0) in
      Buffer.add_char b "0123456789abcdef".[v]; go r
    | _ -> () in
  go l; Buffer.contents b
let sz = string_of_z
let locs = function Interior -> "I" | Boundary -> "B" | Exterior -> "E"
let rec take_pts n l = if n = 0 then ([], l) else match l with
  | x :: y :: r -> let (ps, rest) = take_pts (n - 1) r in ((z x, z y) :: ps, rest)
  | _ -> failwith "pts"
let b01 b = if b then "1" else "0"
let handle line =
  match words line with
  | ["O"; _; ax; ay; bx; by; cx; cy] -> sz (run_orient (z ax, z ay) (z bx, z by) (z cx, z cy))
  | "R" :: _ :: px :: py :: n :: rest ->
    let (ring, _) = take_pts (int_of_string n) rest in
    locs (run_locate_ring (z px, z py) ring) ^ " " ^ locs (run_locate_spec (z px, z py) ring)
  | "P" :: _ :: px :: py :: nr :: rest ->
    let rec rings k l = if k = 0 then [] else match l with
      | n :: r -> let (ps, r') = take_pts (int_of_string n) r in ps :: rings (k - 1) r'
      | [] -> failwith "rings" in
    (match rings (int_of_string nr) rest with
     | shell :: holes -> let ((a, b), c) = run_locate_polygon (z px, z py) shell holes in locs a ^ " " ^ locs b ^ " " ^ locs c
     | [] -> "?")
  | ["S"; _; a; b; c; d; e; f; g; h] ->
    (match run_seg_class (z a, z b) (z c, z d) (z e, z f) (z g, z h) with
     | SegNone -> "N"
     | SegPoint (pr, p) -> Printf.sprintf "P %s %s %s %s" (b01 pr) (sz p.qx) (sz p.qy) (sz p.qw)
     | SegCollinear ((ax, ay), (bx, by)) -> Printf.sprintf "C %s %s %s %s" (sz ax) (sz ay) (sz bx) (sz by))
  | "C" :: _ :: n :: rest ->
    let (ring, _) = take_pts (int_of_string n) rest in
    let (c, a) = run_is_ccw ring in b01 c ^ " " ^ sz a
  | ["E"; _; a; b; c; d; e; f; g; h] ->
    let (s, p) = run_env (z a, z b) (z c, z d) (z e, z f) (z g, z h) in b01 s ^ " " ^ b01 p
  | ["OB"; a; b; c; d; e; f] ->
    let h = z_of_hex in
    sz (orient_bits (h a) (h b) (h c) (h d) (h e) (h f)) ^ " " ^ sz (filter_bits (h a) (h b) (h c) (h d) (h e) (h f))
  | ["OP"; a; b; c; d; e; f] ->
    let h = z_of_hex in
    let q = [| (h a, h b); (h c, h d); (h e, h f) |] in
    let perms = [ (0,1,2); (0,2,1); (1,0,2); (1,2,0); (2,0,1); (2,1,0) ] in
    String.concat " " (List.map (fun (i, j, k) ->
      let (ax, ay) = q.(i) and (bx, by) = q.(j) and (cx, cy) = q.(k) in
      sz (orient_bits ax ay bx by cx cy) ^ ":" ^ sz (filter_bits ax ay bx by cx cy)) perms)
  | ["D"; a; b; c; d] -> let h = z_of_hex in sz (signdet_bits (h a) (h b) (h c) (h d))
  | ["XB"; a; b; c; d; e; f; g; i] ->
    let h = z_of_hex in let (x, y) = intersection_bits (h a) (h b) (h c) (h d) (h e) (h f) (h g) (h i) in
    hex_of_z x ^ " " ^ hex_of_z y
  | ["DD"; op; a; b; c; d] ->
    let h = z_of_hex in let (x, y) = dd_bits (z op) (h a) (h b) (h c) (h d) in hex_of_z x ^ " " ^ hex_of_z y
  | _ -> "?"
let () =
  try while true do
    let line = input_line stdin in
    (try print_endline (handle line) with e -> print_endline ("EXN " ^ Printexc.to_string e));
    flush stdout
  done with End_of_file -> ()
