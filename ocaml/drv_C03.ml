(* driver for the extracted C03 checker (C03/OverlayDefs): one query per input line, one result line per query.
   geometry text (length-prefixed tokens, integer coordinates = the case scaled by its common power of two):
     PT E | PT x y | LS n x y.. | LR n x y.. | PG k (n x y..)*k | MPT m (E | x y)*m | MLS m (n x y..)*m
     | MPG m (k (n x y..)*k)*m | GC m geom*m
   queries:
     CHK <F|M><s?> <opcode> <tn> <td> <en> <ed> <A> <B> <R>
          F = overlay_check, U = unary_check (B ignored), M = membership_check (ClipByRect); a trailing 's' asks for the witness statistics
          -> "1" | "0 valid=<b> shape=<b> sides=<x/y/w;..> lows=<..> conv=<..> segs=<x,y-x,y;..> pts=<x,y;..>"   [ " # nside nfar nlow nexp" ]
     VAL <geom>    -> "1" | "0 <rule code>"
     AREA <tn> <td> <A> <B> <I> <U> <D> <S> <E>  -> "<1|0> a b i u d s e perim1"     (twice the areas)
     DIM <geom>    -> "<dimension> <is_empty>"  *)
let zs = z_of_string
exception Parse of string
let rec take_pts n toks = if n = 0 then ([], toks) else
  match toks with x :: y :: r -> let (l, r') = take_pts (n - 1) r in ((zs x, zs y) :: l, r') | _ -> raise (Parse "pts")
let take_seq toks = match toks with n :: r -> take_pts (int_of_string n) r | _ -> raise (Parse "seq")
let rec take_many f n toks = if n = 0 then ([], toks) else
  let (a, r) = f toks in let (l, r') = take_many f (n - 1) r in (a :: l, r')
let take_poly toks = match toks with
  | k :: r -> let (rings, r') = take_many take_seq (int_of_string k) r in
    (match rings with [] -> (([], []), r') | s :: hs -> ((s, hs), r'))
  | _ -> raise (Parse "poly")
let take_optpt toks = match toks with
  | "E" :: r -> (None, r)
  | x :: y :: r -> (Some (zs x, zs y), r)
  | _ -> raise (Parse "optpt")
let rec take_geom toks = match toks with
  | "PT" :: r -> let (p, r') = take_optpt r in (GPoint p, r')
  | "LS" :: r -> let (l, r') = take_seq r in (GLine l, r')
  | "LR" :: r -> let (l, r') = take_seq r in (GRing l, r')
  | "PG" :: r -> let ((s, hs), r') = take_poly r in (GPoly (s, hs), r')
  | "MPT" :: m :: r -> let (l, r') = take_many take_optpt (int_of_string m) r in (GMPoint l, r')
  | "MLS" :: m :: r -> let (l, r') = take_many take_seq (int_of_string m) r in (GMLine l, r')
  | "MPG" :: m :: r -> let (l, r') = take_many take_poly (int_of_string m) r in (GMPoly l, r')
  | "GC" :: m :: r -> let (l, r') = take_many take_geom (int_of_string m) r in (GColl l, r')
  | t :: _ -> raise (Parse ("geom " ^ t))
  | [] -> raise (Parse "geom: end of input")
let show_h ((x, y), w) = string_of_z x ^ "/" ^ string_of_z y ^ "/" ^ string_of_z w
let show_p (x, y) = string_of_z x ^ "," ^ string_of_z y
let b2s b = if b then "1" else "0"
let cap n l = let rec go k l = match l with [] -> [] | a :: t -> if k = 0 then [] else a :: go (k - 1) t in go n l
let get_op s = match op_of_code (zs s) with Some o -> o | None -> raise (Parse "op code")
let () =
  try while true do
    let line = input_line stdin in
    (try match words line with
    | "CHK" :: mode :: op :: tn :: td :: en :: ed :: toks ->
      let o = get_op op in
      let p = { p_tn = zs tn; p_td = zs td; p_en = zs en; p_ed = zs ed } in
      let (a, r1) = take_geom toks in let (b, r2) = take_geom r1 in let (r, _) = take_geom r2 in
      let ok = if mode.[0] = 'M' then membership_check p o a b r else if mode.[0] = 'U' then unary_check p a r else overlay_check p o a b r in
      let stats = String.length mode > 1 && mode.[1] = 's' in
      let v = if (not ok) || stats then Some (overlay_verdict (mode.[0] = 'U') p o a b r) else None in
      let head = if ok then "1" else (match v with
        | Some v -> Printf.sprintf "0 valid=%s shape=%s sides=%s lows=%s conv=%s segs=%s pts=%s" (b2s v.v_valid) (b2s v.v_shape)
            (String.concat ";" (List.map show_h (cap 4 v.v_sides))) (String.concat ";" (List.map show_h (cap 4 v.v_lows)))
            (String.concat ";" (List.map show_h (cap 4 v.v_lows2)))
            (String.concat ";" (List.map (fun (u, w) -> show_p u ^ "-" ^ show_p w) (cap 4 v.v_segs)))
            (String.concat ";" (List.map show_p (cap 4 v.v_pts)))
        | None -> "0") in
      let tail = (match v with
        | Some v when stats -> Printf.sprintf " # %s %s %s %s" (string_of_z v.v_nside) (string_of_z v.v_nfar) (string_of_z v.v_nlow) (string_of_z v.v_nexp)
        | _ -> "") in
      print_endline (head ^ tail)
    | "VAL" :: toks ->
      let (g, _) = take_geom toks in
      (match valid_detail false g with
       | None -> print_endline "1"
       | Some (r, _) -> print_endline ("0 " ^ string_of_z (rule_code r)))
    | "AREA" :: tn :: td :: toks ->
      let p = { p_tn = zs tn; p_td = zs td; p_en = zs "1"; p_ed = zs "1" } in
      let (gs, _) = take_many take_geom 7 toks in
      (match gs with
       | [a; b; i; u; d; s; e] ->
         print_endline (String.concat " " (b2s (area_laws p a b i u d s e) ::
           List.map (fun g -> string_of_z (geom_area2 g)) [a; b; i; u; d; s; e] @ [string_of_z (Z.add (geom_perim1 a) (geom_perim1 b))]))
       | _ -> print_endline "?")
    | "DIM" :: toks ->
      let (g, _) = take_geom toks in
      print_endline (string_of_z (dimension g) ^ " " ^ b2s (is_empty g))
    | _ -> print_endline "?"
    with Parse s -> print_endline ("PARSE-ERROR " ^ s) | Failure s -> print_endline ("ERROR " ^ s)
       | Stack_overflow -> print_endline "ERROR stack overflow" | Not_found -> print_endline "ERROR not found");
    flush stdout
  done with End_of_file -> ()
