(* driver for the extracted C17 model / checker: one request per line, one result line per request.
   geometry tokens (integer coordinates): PT E | PT x y | LS n x y.. | LR n x y.. | PG k (n x y..)*k | MPT m (E | x y)*m
     | MLS m (n x y..)*m | MPG m (k (n x y..)*k)*m | GC m geom*m
   requests:
     FIX <L|S> <keep 0|1> <input valid 0|1> <tn> <td> | <input> | <result>       (squared tolerance tn/td for leaving out witnesses)
         -> valid dim env equal vertices area keep f10key   (1/0; '-' when the clause does not apply)  [first broken validity rule]
     TABLE <keep> <kind P|L|R|A> <n> <area 0|1> <ringvalid 0|1>  -> 0 empty | 1 point | 2 line | 3 ring | 4 area *)
let zs = z_of_string
exception Parse of string
let rec take_pts n toks = if n = 0 then ([], toks) else
  match toks with x :: y :: r -> let (l, r') = take_pts (n - 1) r in ((zs x, zs y) :: l, r') | _ -> raise (Parse "pts")
let take_seq toks = match toks with n :: r -> take_pts (int_of_string n) r | _ -> raise (Parse "seq")
let rec take_many f n toks = if n = 0 then ([], toks) else
  let (a, r) = f toks in let (l, r') = take_many f (n - 1) r in (a :: l, r')
let take_poly toks = match toks with
  | k :: r -> let (rings, r') = take_many take_seq (int_of_string k) r in
    (match rings with [] -> (([], []), r') | s :: hs -> ((s, hs), r'))
  | _ -> raise (Parse "poly")
let take_optpt toks = match toks with
  | "E" :: r -> (None, r)
  | x :: y :: r -> (Some (zs x, zs y), r)
  | _ -> raise (Parse "optpt")
let rec take_geom toks = match toks with
  | "PT" :: r -> let (p, r') = take_optpt r in (GPoint p, r')
  | "LS" :: r -> let (l, r') = take_seq r in (GLine l, r')
  | "LR" :: r -> let (l, r') = take_seq r in (GRing l, r')
  | "PG" :: r -> let ((s, hs), r') = take_poly r in (GPoly (s, hs), r')
  | "MPT" :: m :: r -> let (l, r') = take_many (fun t -> match t with "PT" :: t' -> take_optpt t' | _ -> take_optpt t) (int_of_string m) r in (GMPoint l, r')
  | "MLS" :: m :: r -> let (l, r') = take_many (fun t -> match t with "LS" :: t' -> take_seq t' | _ -> take_seq t) (int_of_string m) r in (GMLine l, r')
  | "MPG" :: m :: r -> let (l, r') = take_many (fun t -> match t with "PG" :: t' -> take_poly t' | _ -> take_poly t) (int_of_string m) r in (GMPoly l, r')
  | "GC" :: m :: r -> let (l, r') = take_many take_geom (int_of_string m) r in (GColl l, r')
  | t :: _ -> raise (Parse ("geom " ^ t))
  | [] -> raise (Parse "geom: end of input")
let b2s b = if b then "1" else "0"
let () =
  try while true do
    let line = input_line stdin in
    (try
      match List.map String.trim (String.split_on_char '|' line) with
      | [hd; g; r] ->
        (match words hd with
         | ["FIX"; m; keep; vin; tn; td] ->
           let tn = zs tn and td = zs td in
           let (g, _) = take_geom (words g) and (r, _) = take_geom (words r) in
           let keep = keep = "1" and vin = vin = "1" in
           let st = m = "S" in
           let detail = (match valid_detail false r with None -> "" | Some (ru, _) -> " rule=" ^ string_of_int (int_of_z (rule_code ru))) in
           print_endline (String.concat " " [b2s (c_valid r); b2s (c_dim g r); b2s (c_env g r);
                                             (if vin then b2s (c_equal tn td g r) else "-");
                                             (if st then "-" else b2s (c_vertices g r));
                                             (if st then b2s (c_area tn td g r) else "-");
                                             (if st then b2s (check_keep_tree keep g r) else "-");
                                             b2s (f10_key g)] ^ detail)
         | _ -> print_endline "?")
      | [hd] ->
        (match words hd with
         | ["TABLE"; keep; kind; n; area; rv] ->
           let k = (match kind with "P" -> EPoint | "L" -> ELine | "R" -> ERing | _ -> EPoly) in
           print_endline (string_of_int (int_of_z (okind_code (collapse_table (keep = "1") k (nat_of_int (int_of_string n)) (area = "1") (rv = "1")))))
         | _ -> print_endline "?")
      | _ -> print_endline "?"
    with Parse s -> print_endline ("PARSE-ERROR " ^ s) | Failure s -> print_endline ("ERROR " ^ s) | Not_found -> print_endline "ERROR notfound");
    flush stdout
  done with End_of_file -> ()
