(* driver for the extracted C06 checker: one case per input line, one result line per case.
   integers are arbitrary-precision decimals (all coordinates of a case on one common grid); pts = <n> x y x y ...
   input   = <pts> <nlines> <pts>* <npolys> ( <nrings> <pts>* )*          mpoly = <npolys> ( <nrings> <pts>* )*
   BUF <sgn> <rnd> <d> <q> <kn> <kd> <input> <mpoly R> <pts witnesses>        -> I <idx>* O <idx>*
   SS  <side> <d> <q> <kn> <kd> <nlines> <pts>* <mpoly R> <n> (x y k)*          -> I <idx>* O <idx>*
   OC  <side> <rnd> <d> <q> <kn> <kd> <nlines> <pts>* <nlines> <pts>* <n> (x y k)* -> N <idx>* F <idx>* C <idx>*
   NSEG <tn> <td> <qn> <qd>                                                     -> floor(t/q + 1/2)
   LOC <mpoly> x y                                                              -> 0 | 1 | 2
   EUP <q>                                                                      -> num den *)
let toks = ref []
let next () = match !toks with t :: r -> toks := r; t | [] -> failwith "eol"
let zt () = z_of_string (next ())
let it () = int_of_string (next ())
let rec rep n f = if n <= 0 then [] else let x = f () in x :: rep (n - 1) f
let pt () = let x = zt () in let y = zt () in (x, y)
let pts () = let n = it () in rep n pt
let lines () = let n = it () in rep n pts
let poly () = let n = it () in rep n pts
let mpoly () = let n = it () in rep n poly
let input () = let p = pts () in let l = lines () in let a = mpoly () in { in_pts = p; in_lines = l; in_polys = a }
let show l = String.concat "" (List.map (fun z -> " " ^ string_of_z z) l)
let pos_of_z z = match z with Zpos p -> p | _ -> failwith "positive expected"
let () =
  try while true do
    let line = input_line stdin in
    (try
      toks := words line;
      (match next () with
       | "BUF" ->
         let sgn = zt () in let rnd = it () <> 0 in let d = zt () in let q = zt () in let kn = zt () in let kd = zt () in
         let g = input () in let r = mpoly () in let ws = pts () in
         let (fi, fo) = check_buffer sgn rnd g d q (kn, kd) r ws in
         print_endline ("I" ^ show fi ^ " O" ^ show fo)
       | "SS" ->
         let side = zt () in let d = zt () in let q = zt () in let kn = zt () in let kd = zt () in
         let ls = lines () in let r = mpoly () in
         let n = it () in let ws = rep n (fun () -> let p = pt () in let k = it () in (p, nat_of_int k)) in
         let (fi, fo) = check_single_sided side ls d q (kn, kd) r ws in
         print_endline ("I" ^ show fi ^ " O" ^ show fo)
       | "OC" ->
         let side = zt () in let rnd = it () <> 0 in let d = zt () in let q = zt () in let kn = zt () in let kd = zt () in
         let ls = lines () in let c = lines () in
         let n = it () in let ws = rep n (fun () -> let p = pt () in let k = it () in (p, nat_of_int k)) in
         let ((fn, ff), fc) = check_offset_curve side rnd ls d q (kn, kd) c ws in
         print_endline ("N" ^ show fn ^ " F" ^ show ff ^ " C" ^ show fc)
       | "NSEG" ->
         let tn = zt () in let td = zt () in let qn = zt () in let qd = zt () in
         print_endline (string_of_z (nsegs_q { qnum = tn; qden = pos_of_z td } { qnum = qn; qden = pos_of_z qd }))
       | "LOC" ->
         let r = mpoly () in let p = pt () in print_endline (string_of_z (mpoly_loc r p))
       | "EUP" -> let (n, d) = e_up (zt ()) in print_endline (string_of_z n ^ " " ^ string_of_z d)
       | s -> print_endline ("BAD " ^ s))
    with e -> print_endline ("ERR " ^ Printexc.to_string e));
    flush stdout
  done with End_of_file -> ()
