(* driver for the extracted C16 checkers: one case per input line, one result line per case.
   tokens are separated by blanks; sections start with a letter token.
     D <tol2> <dj> S x y .. T x y x y x y .. E x y x y ..        Delaunay: sites, triangles, edge output (dj=1: also pairwise disjointness)
        -> "OK" | "FAIL c<code> .."  codes: 0 no triangle, 1..8 = Defs.delaunay_clauses, 10 edge output, 11 pairwise disjoint,
           12 degenerate (no triangles but the kept sites are not collinear), 13 edges present although there is no triangle;
           for code 8:  " local=<n> blind=<n> global=<n> w=<tri corners + site of the first violation>"
     C P ring ; ring ; .. [P ..]* T x y x y x y ..               constrained: polygons (first ring = shell), triangles
        -> "INVALID-INPUT" | "OK" | "FAIL c<code> .."   codes: Defs.cdt_clauses, 20 triangle not owned by exactly one polygon, 11 disjoint
     V <ulps> <ordered> <env xmin ymin xmax ymax | -> S x y .. G hex hex .. ; hex hex .. ; ..   Voronoi (sites ints, cells bit patterns)
        -> "OK" | "FAIL c<code> .."   codes: Defs.voronoi_clauses, 30 no unique site per cell / not a permutation, 31 non-finite ordinate
     W <ulps> <env | -> S x y .. G hex hex .. ; ..              Voronoi edges-only output: "OK" | "FAIL c40" (a vertex outside the envelope or not
                                                                 on a Voronoi edge) | "FAIL c41" (no line although there are >= 2 distinct sites)
     P hex x8                                                    -> "<robust> <nonrobust> <det bits> <deterror bits>"
     Q x y ..                                                    -> "<number of quadruples of the site set inside the predicate's error band> <first one>"
     B x y x8 (q p r t)                                          -> "<robust on grid> <exact location> <incircle> <band>"   *)
let zs = z_of_string
let rec pts_of toks = match toks with
  | x :: y :: r -> (zs x, zs y) :: pts_of r
  | [] -> []
  | _ -> failwith "odd number of ordinates"
let rec tris_of l = match l with a :: b :: c :: r -> ((a, b), c) :: tris_of r | [] -> [] | _ -> failwith "triangle list"
let rec edges_of l = match l with a :: b :: r -> (a, b) :: edges_of r | [] -> [] | _ -> failwith "edge list"
(* split the token list into sections introduced by single capital letters *)
let is_tag t = String.length t = 1 && t.[0] >= 'A' && t.[0] <= 'Z'
let sections toks =
  let rec go cur acc toks = match toks with
    | [] -> List.rev (match cur with None -> acc | Some (t, l) -> (t, List.rev l) :: acc)
    | t :: r when is_tag t -> go (Some (t, [])) (match cur with None -> acc | Some (t0, l) -> (t0, List.rev l) :: acc) r
    | t :: r -> (match cur with None -> failwith "token before section" | Some (t0, l) -> go (Some (t0, t :: l)) acc r) in
  go None [] toks
let sect name secs = try List.assoc name secs with Not_found -> []
let split_on tok l =
  let rec go cur acc l = match l with
    | [] -> List.rev (List.rev cur :: acc)
    | t :: r when t = tok -> go [] (List.rev cur :: acc) r
    | t :: r -> go (t :: cur) acc r in
  go [] [] l
(* 16 hex digits -> Z : the bits from the least significant one *)
let hex_z s =
  let bits = ref [] in      (* most significant first *)
  String.iter (fun c ->
    let d = if c >= '0' && c <= '9' then Char.code c - 48 else if c >= 'a' && c <= 'f' then Char.code c - 87 else Char.code c - 55 in
    bits := !bits @ [d land 8 <> 0; d land 4 <> 0; d land 2 <> 0; d land 1 <> 0]) s;
  let rec strip l = match l with false :: r -> strip r | _ -> l in
  match strip !bits with
  | [] -> Z0
  | _ :: rest -> Zpos (List.fold_left (fun p b -> if b then XI p else XO p) XH rest)
let z_hex z = string_of_z z
let show_pt (x, y) = string_of_z x ^ "," ^ string_of_z y
let codes l = String.concat " " (List.map (fun c -> "c" ^ string_of_int (int_of_z c)) l)
let b2z b = if b then "1" else "0"

let delaunay tol2 dj secs =
  let sites = pts_of (sect "S" secs) and tris = tris_of (pts_of (sect "T" secs)) and edges = edges_of (pts_of (sect "E" secs)) in
  match tris with
  | [] ->
    (* degenerate: kept sites = end points of the edge output, or the first site *)
    let k = match edges with [] -> (match sort_pts sites with s :: _ -> [s] | [] -> []) | _ -> List.concat_map (fun (a, b) -> [a; b]) edges in
    let fl = (if check_degenerate tol2 sites k then [] else ["c12"]) @ (match edges with [] -> [] | _ -> ["c13"]) in
    if fl = [] then "OK" else "FAIL " ^ String.concat " " fl
  | _ ->
    let cl = delaunay_clauses tol2 sites tris in
    let f = failed cl in
    let f = if check_edges tris edges then f else f @ [z_of_int 10] in
    let f = if dj && not (check_disjoint tris) then f @ [z_of_int 11] else f in
    if f = [] then "OK" else begin
      let extra = if List.exists (fun c -> int_of_z c = 8) f then begin
        let ts = List.map tri_ccw tris in
        let lv = local_violations ts and gv = global_violations ts (corners ts) in
        let blind = List.filter band_blind lv in
        let w = match gv with (((a, b), c), d) :: _ -> String.concat ";" (List.map show_pt [a; b; c; d]) | [] -> "-" in
        let w = w ^ (match lv with (((u, w'), o), d) :: _ -> " e=" ^ String.concat ";" (List.map show_pt [u; w'; o; d]) | [] -> "") in
        Printf.sprintf " local=%d blind=%d global=%d w=%s" (List.length lv) (List.length blind) (List.length gv) w
      end else "" in
      "FAIL " ^ codes f ^ extra
    end

let polygon_of toks =
  match List.filter (fun r -> r <> []) (List.map pts_of (split_on ";" toks)) with
  | shell :: holes -> (shell, holes)
  | [] -> ([], [])
let constrained dj toks =
  (* toks: P ring ; ring .. P .. T .. : cannot use `sections` blindly because P repeats *)
  let rec polys acc cur toks = match toks with
    | "P" :: r -> polys (match cur with None -> acc | Some l -> polygon_of (List.rev l) :: acc) (Some []) r
    | "T" :: r -> (List.rev (match cur with None -> acc | Some l -> polygon_of (List.rev l) :: acc), r)
    | t :: r -> (match cur with None -> failwith "constrained: token before P" | Some l -> polys acc (Some (t :: l)) r)
    | [] -> (List.rev (match cur with None -> acc | Some l -> polygon_of (List.rev l) :: acc), []) in
  let (ps, ttoks) = polys [] None toks in
  let tris = tris_of (pts_of ttoks) in
  if not (polygons_valid ps) then "INVALID-INPUT" else begin
    let f = List.sort_uniq compare (List.map int_of_z (failed (cdt_multi_clauses ps tris))) in
    let f = List.map z_of_int f in
    let f = if dj && not (check_disjoint tris) then f @ [z_of_int 11] else f in
    if f = [] then "OK" else "FAIL " ^ codes f
  end

let voronoi_edges ulps envtoks secs =
  let sites = pts_of (sect "S" secs) in
  let lines_bits = List.filter (fun c -> c <> []) (split_on ";" (sect "G" secs)) in
  let user = match envtoks with [a; b; c; d] -> Some { exmin = zs a; exmax = zs c; eymin = zs b; eymax = zs d } | _ -> None in
  let dys = List.map (List.map (fun h -> dyadic_of (of_bits (hex_z h)))) lines_bits in
  if List.exists (List.exists (fun d -> d = None)) dys then "FAIL c31" else begin
    let dys = List.map (List.map (function Some d -> d | None -> assert false)) dys in
    let emin = min_exp (List.concat dys) in
    let w = scale_dy emin (z_of_int 1, Z0) in
    let rec pairs l = match l with x :: y :: r -> (scale_dy emin x, scale_dy emin y) :: pairs r | [] -> [] | _ -> failwith "line ordinates" in
    let lines = List.map pairs dys in
    let usites = sort_pts sites in
    let sc (x, y) = (Z.mul w x, Z.mul w y) in
    let senv e = { exmin = Z.mul w e.exmin; exmax = Z.mul w e.exmax; eymin = Z.mul w e.eymin; eymax = Z.mul w e.eymax } in
    match diagram_env usites user with
    | None -> if lines = [] then "OK" else "FAIL c1"
    | Some denv ->
      (match usites with
       | [] | [_] -> if lines = [] then "OK" else "FAIL c40"
       | _ -> if lines = [] then "FAIL c41" else
           if check_voronoi_edges ulps (senv denv) (List.map sc usites) lines then "OK" else "FAIL c40")
  end

let voronoi ulps ordered envtoks secs =
  let sites = pts_of (sect "S" secs) in
  let cells_bits = List.filter (fun c -> c <> []) (split_on ";" (sect "G" secs)) in
  let user = match envtoks with [a; b; c; d] -> Some { exmin = zs a; exmax = zs c; eymin = zs b; eymax = zs d } | _ -> None in
  let dys = List.map (List.map (fun h -> dyadic_of (of_bits (hex_z h)))) cells_bits in
  if List.exists (List.exists (fun d -> d = None)) dys then "FAIL c31" else begin
    let dys = List.map (List.map (function Some d -> d | None -> assert false)) dys in
    let emin = min_exp (List.concat dys) in
    let w = scale_dy emin (z_of_int 1, Z0) in
    let rec pairs l = match l with x :: y :: r -> (scale_dy emin x, scale_dy emin y) :: pairs r | [] -> [] | _ -> failwith "cell ordinates" in
    (* drop the closing point of each ring *)
    let cells = List.map (fun c -> let p = pairs c in match List.rev p with _ :: r -> List.rev r | [] -> []) dys in
    let usites = sort_pts sites in
    let sc (x, y) = (Z.mul w x, Z.mul w y) in
    let senv e = { exmin = Z.mul w e.exmin; exmax = Z.mul w e.exmax; eymin = Z.mul w e.eymin; eymax = Z.mul w e.eymax } in
    match diagram_env usites user with
    | None -> if cells = [] then "OK" else "FAIL c1"
    | Some denv ->
      let ssites = List.map sc (if ordered then sites else usites) in
      let order = if ordered then Some ssites else
          (match assign_sites cells ssites with Some l when same_pts l ssites -> Some l | _ -> None) in
      (match order with
       | None -> "FAIL c30"
       | Some own ->
         let f = failed (voronoi_clauses ulps (senv denv) own cells) in
         let f = if ordered || f <> [] then f else f in
         if f = [] then "OK" else "FAIL " ^ codes f)
  end

(* mode H: the quad-edge hand model (QuadEdgeDefs.v) run beside the real objects (harness/c16_quadedge.cpp).
     H <F|E> op ; op ; ..    op = m <o> <d> | s <q>.<r> <q>.<r> | c <q>.<r> <q>.<r> | w <q>.<r> | x <q>.<r>
   E: history from the empty deque; F: the history is prefixed by init_subdiv 1 (-20) 22 (frame of Envelope(0,2,0,2)).
   -> "<dump> | legal=<0|1> inv=<0|1> orgc=<0|1>" with the dump of the harness, "BADREF <op index>" or "?" *)
exception Qe_stop of string
let qe_history full toks =
  let r4 i = match i with 0 -> R0 | 1 -> R1 | 2 -> R2 | _ -> R3 in
  let r4i r = match r with R0 -> 0 | R1 -> 1 | R2 -> 2 | R3 -> 3 in
  let int_tok t = match int_of_string_opt t with
    | Some v when t <> "" && (match t.[0] with '0' .. '9' | '-' | '+' -> true | _ -> false) && not (String.contains t '_') -> v
    | _ -> raise (Qe_stop "?") in
  let ops_toks = List.filter (fun o -> o <> []) (split_on ";" toks) in
  let pre = if full then Xc16.init_subdiv (z_of_int 1) (z_of_int (-20)) (z_of_int 22) else [] in
  let st = ref (Xc16.run Xc16.empty pre) in
  let hist = ref [] in
  let edge k t =
    match String.index_opt t '.' with
    | None -> raise (Qe_stop "?")
    | Some i ->
      let q = int_tok (String.sub t 0 i) and r = int_tok (String.sub t (i + 1) (String.length t - i - 1)) in
      if q < 0 || r < 0 then raise (Qe_stop "?");
      if q >= int_of_nat (!st).nq || r > 3 then raise (Qe_stop ("BADREF " ^ string_of_int k));
      (nat_of_int q, r4 r) in
  try
    List.iteri (fun k o ->
      let op = match o with
        | ["m"; a; b] -> MakeEdge (z_of_int (int_tok a), z_of_int (int_tok b))
        | ["s"; a; b] -> let ea = edge k a in let eb = edge k b in Splice (ea, eb)
        | ["c"; a; b] -> let ea = edge k a in let eb = edge k b in Connect (ea, eb)
        | ["w"; a] -> Swap (edge k a)
        | ["x"; a] -> Remove (edge k a)
        | _ -> raise (Qe_stop "?") in
      hist := op :: !hist;
      st := Xc16.step !st op) ops_toks;
    let ops = pre @ List.rev !hist in
    let fin = Xc16.run Xc16.empty ops in
    let n = int_of_nat fin.nq in
    let b = Buffer.create 256 in
    let show (q, r) = Printf.sprintf "%d.%d" (int_of_nat q) (r4i r) in
    Buffer.add_string b (Printf.sprintf "n=%d" n);
    for q = 0 to n - 1 do
      List.iter (fun r ->
        let e = (nat_of_int q, r) in
        Buffer.add_string b (Printf.sprintf " %s%s>%s^%s@%s" (show e) (if Xc16.is_dead fin e then "!" else "")
                               (show (Xc16.oNext fin e)) (show (Xc16.rot e)) (string_of_z (Xc16.orig fin e)))) [R0; R1; R2; R3]
    done;
    let bit v = if v then 1 else 0 in
    Buffer.add_string b (Printf.sprintf " | legal=%d inv=%d orgc=%d" (bit (Xc16.legal_from Xc16.empty ops))
                           (bit (Xc16.inv_b fin)) (bit (Xc16.org_consistent_b fin)));
    Buffer.contents b
  with Qe_stop m -> m

let () =
  try while true do
    let line = input_line stdin in
    (try match words line with
      | "D" :: tol2 :: dj :: rest -> print_endline (delaunay (zs tol2) (dj = "1") (sections rest))
      | "C" :: dj :: rest -> print_endline (constrained (dj = "1") rest)
      | "W" :: ulps :: "-" :: rest -> print_endline (voronoi_edges (zs ulps) [] (sections rest))
      | "W" :: ulps :: a :: b :: c :: d :: rest -> print_endline (voronoi_edges (zs ulps) [a; b; c; d] (sections rest))
      | "V" :: ulps :: ordered :: "-" :: rest -> print_endline (voronoi (zs ulps) (ordered = "1") [] (sections rest))
      | "V" :: ulps :: ordered :: a :: b :: c :: d :: rest -> print_endline (voronoi (zs ulps) (ordered = "1") [a; b; c; d] (sections rest))
      | ["P"; a; b; c; d; e; f; g; h] ->
        let q = fpt_of_bits (hex_z a) (hex_z b) and p = fpt_of_bits (hex_z c) (hex_z d)
        and r = fpt_of_bits (hex_z e) (hex_z f) and t = fpt_of_bits (hex_z g) (hex_z h) in
        let (dd, ee) = det_b64 q p r t in
        print_endline (Printf.sprintf "%d %d %s %s" (int_of_z (robust_b64 q p r t)) (int_of_z (nonrobust_b64 q p r t)) (z_hex (to_bits dd)) (z_hex (to_bits ee)))
      | "Q" :: rest ->
        let qs = band_quads (sort_pts (pts_of rest)) in
        print_endline (Printf.sprintf "%d%s" (List.length qs)
          (match qs with (((a, b), c), d) :: _ -> " " ^ String.concat ";" (List.map show_pt [a; b; c; d]) | [] -> ""))
      | "H" :: "F" :: rest -> print_endline (qe_history true rest)
      | "H" :: "E" :: rest -> print_endline (qe_history false rest)
      | "B" :: rest ->
        (match pts_of rest with
         | [q; p; r; t] -> print_endline (Printf.sprintf "%d %d %s %s" (int_of_z (robust_grid q p r t)) (int_of_z (exact_loc q p r t))
                                            (string_of_z (geos_incircle q p r t)) (string_of_z (geos_band q p r t)))
         | _ -> print_endline "?")
      | _ -> print_endline "?"
    with Failure m -> print_endline ("DRIVER-ERROR " ^ m) | Not_found -> print_endline "DRIVER-ERROR not_found")
  done with End_of_file -> ()
