(* driver for the extracted C10 models: one case per input line, one canonical result line per case (same format as harness/c10.cpp)
   N <hex16> <tprecs> <uprecs>     number: T<p>=<trimmed string>:<reread bits>  U<p>=<untrimmed string>:<reread bits>   (p = -1 is 16)
   S <token>                       number language: bits of strtod_spec, or REJECT
   D <hex16>                       shortest digits:  <k> <g> <in_interval>
   G <trim> <prec> <dim> <old3d> <tree>   WKT:  I=<dump of input>|W=<text>|R=<dump of the re-read geometry | FAIL>|X=<dump of expect | NONE>
   J <indent> <tree>               GeoJSON:  I=<dump of input>|E=<canonical dump of the JSON tree | NOWRITE>|R=<dump of the re-read geometry | FAIL>
   tree:  leaf  P|L|R|C <d> <n> (<x> <y> <z> <m>)*n      node  CC|PG|CP|MP|ML|MG|MC|MS|GC <k> child*k      d = Z + 2*M *)
let z_of_hex (s : string) : z =
  let acc = ref None in
  String.iter (fun ch ->
    let v = if ch >= '0' && ch <= '9' then Char.code ch - 48 else if ch >= 'a' && ch <= 'f' then Char.code ch - 87 else Char.code ch - 55 in
    for i = 3 downto 0 do
      let b = (v lsr i) land 1 = 1 in
      acc := (match !acc with None -> if b then Some XH else None | Some p -> Some (if b then XI p else XO p))
    done) s;
  match !acc with None -> Z0 | Some p -> Zpos p
let hex_of_z (v : z) : string =
  let rec bits p = match p with XH -> [1] | XO q -> 0 :: bits q | XI q -> 1 :: bits q in
  let bl = match v with Z0 -> [] | Zpos p -> bits p | Zneg _ -> failwith "hex_of_z" in
  let a = Array.make 64 0 in
  List.iteri (fun i b -> if i < 64 then a.(i) <- b) bl;
  let buf = Buffer.create 16 in
  for n = 15 downto 0 do
    let v = a.(4*n) + 2 * a.(4*n+1) + 4 * a.(4*n+2) + 8 * a.(4*n+3) in
    Buffer.add_char buf "0123456789abcdef".[v]
  done;
  Buffer.contents buf
let str_of (l : char list) : string = String.init (List.length l) (List.nth l)
let str_of l = let b = Buffer.create 64 in List.iter (Buffer.add_char b) l; Buffer.contents b
let chars_of (s : string) : char list = List.init (String.length s) (String.get s)
let nan_hex = "7ff8000000000000"
let canon h = (* canonical NaN *)
  let e = int_of_string ("0x" ^ String.sub h 0 4) land 0x7ff0 and rest = String.sub h 3 13 in
  if e = 0x7ff0 && rest <> "0000000000000" then nan_hex else h
let bits_of_sf f = canon (hex_of_z (to_bits f))
let cache : (string, string) Hashtbl.t = Hashtbl.create 64
let reread (s : char list) =
  let k = str_of s in
  match Hashtbl.find_opt cache k with
  | Some r -> r
  | None -> let r = (match strtod_spec s with Some f -> bits_of_sf f | None -> "REJECT") in
            if Hashtbl.length cache > 5000 then Hashtbl.reset cache; Hashtbl.add cache k r; r
let precs s = if s = "-" then [] else List.map int_of_string (String.split_on_char ',' s)

(* ---- trees *)
let dims_of_int d = { dz = d land 1 = 1; dm = d land 2 = 2 }
let int_of_dims d = (if d.dz then 1 else 0) + (if d.dm then 2 else 0)
let rec parse_tree (ws : string list) : geom * string list =
  match ws with
  | ("P" | "L" | "R" | "C" as k) :: d :: n :: rest ->
    let n = int_of_string n in
    let rec coords i ws acc = if i = 0 then (List.rev acc, ws) else
      match ws with x :: y :: zz :: m :: r -> coords (i-1) r ({ cx = z_of_hex x; cy = z_of_hex y; cz = z_of_hex zz; cm = z_of_hex m } :: acc)
      | _ -> failwith "coords" in
    let (cs, rest) = coords n rest [] in
    let k = (match k with "P" -> KPoint | "L" -> KLineString | "R" -> KLinearRing | _ -> KCircularString) in
    (GLeaf (k, dims_of_int (int_of_string d), cs), rest)
  | k :: n :: rest ->
    let kk = (match k with "CC" -> KCompoundCurve | "PG" -> KPolygon | "CP" -> KCurvePolygon | "MP" -> KMultiPoint | "ML" -> KMultiLineString
      | "MG" -> KMultiPolygon | "MC" -> KMultiCurve | "MS" -> KMultiSurface | "GC" -> KCollection | _ -> failwith ("kind " ^ k)) in
    let rec kids i ws acc = if i = 0 then (List.rev acc, ws) else let (g, r) = parse_tree ws in kids (i-1) r (g :: acc) in
    let (l, rest) = kids (int_of_string n) rest [] in
    (GNode (kk, l), rest)
  | _ -> failwith "tree"
let rec dump (g : geom) : string =
  match g with
  | GLeaf (k, d, cs) ->
    let kc = (match k with KPoint -> "P" | KLineString -> "L" | KLinearRing -> "R" | KCircularString -> "C") in
    let ord c = String.concat "," ([canon (hex_of_z c.cx); canon (hex_of_z c.cy)] @ (if d.dz then [canon (hex_of_z c.cz)] else []) @ (if d.dm then [canon (hex_of_z c.cm)] else [])) in
    Printf.sprintf "(%s %d %d%s)" kc (int_of_dims d) (List.length cs) (String.concat "" (List.map (fun c -> " " ^ ord c) cs))
  | GNode (k, l) ->
    let kc = (match k with KCompoundCurve -> "CC" | KPolygon -> "PG" | KCurvePolygon -> "CP" | KMultiPoint -> "MP" | KMultiLineString -> "ML"
      | KMultiPolygon -> "MG" | KMultiCurve -> "MC" | KMultiSurface -> "MS" | KCollection -> "GC") in
    Printf.sprintf "(%s %d%s)" kc (List.length l) (String.concat "" (List.map (fun x -> " " ^ dump x) l))

(* print_trimmed a p = print_trimmed_sd (decode a) (shortest_of (decode a)) p by definition; the digits are cached per bit pattern *)
let sd_cache : (string, dbl * (z * z)) Hashtbl.t = Hashtbl.create 256
let digits_of_bits (a : z) =
  let k = hex_of_z a in
  match Hashtbl.find_opt sd_cache k with
  | Some r -> r
  | None -> let d = decode a in let r = (d, shortest_of d) in
            if Hashtbl.length sd_cache > 20000 then Hashtbl.reset sd_cache; Hashtbl.add sd_cache k r; r
let number_printer trim prec = fun (a : z) ->
  if trim then (let (d, sd) = digits_of_bits a in print_trimmed_sd d sd (z_of_int prec)) else print_untrimmed a (z_of_int prec)

let () =
  try while true do
    let line = input_line stdin in
    (try
      match words line with
      | ["N"; h; tp; up] ->
        let b = z_of_hex h in
        let d = decode b in
        let sd = shortest_of d in          (* the digits are computed once; print_trimmed b p = print_trimmed_sd (decode b) (shortest_of (decode b)) p by definition *)
        let one tag f p = let pp = if p < 0 then 16 else p in let s = f (z_of_int pp) in Printf.sprintf "%s%d=%s:%s" tag p (str_of s) (reread s) in
        print_endline (String.concat "|" (List.map (one "T" (print_trimmed_sd d sd)) (precs tp) @ List.map (one "U" (print_untrimmed b)) (precs up)))
      | ["S"; tok] -> print_endline (reread (chars_of tok))
      | ["D"; h] ->
        (match decode (z_of_hex h) with
         | DFin (_, m2, e2, c) ->
           let (k, g) = shortest m2 e2 c in
           let (((a, _), bb), d) = interval m2 e2 c in
           let even = (match m2 with Zpos (XO _) -> true | _ -> false) in
           print_endline (Printf.sprintf "%s %s %b" (string_of_z k) (string_of_z g) (in_interval even a bb d k g))
         | _ -> print_endline "special")
      | "G" :: trim :: prec :: dim :: old :: tree ->
        let (g, rest) = parse_tree tree in
        if rest <> [] then failwith "trailing words";
        let (trim, prec, dim, old) = if trim = "L" then (false, 16, 2, false) else (trim = "1", (let p = int_of_string prec in if p < 0 then 16 else p), int_of_string dim, old = "1") in
        let c = { c_dim = z_of_int dim; c_old3d = old } in
        let toks = print_tokens c g in
        let text = render (number_printer trim prec) toks in
        let r = (match parse_string text with Some g' -> dump g' | None -> "FAIL") in
        let x = (match expect c g with Some g' -> dump g' | None -> "NONE") in
        print_endline (Printf.sprintf "I=%s|W=%s|R=%s|X=%s|wf=%b" (dump g) (str_of text) r x (wf g))
      | "J" :: _indent :: tree ->
        let (g, rest) = parse_tree tree in
        if rest <> [] then failwith "trailing words";
        let rec jd j = (match j with
          | JNull -> "null" | JNum a -> "#" ^ canon (hex_of_z a) | JStr s -> "\"" ^ str_of s ^ "\""
          | JArr l -> "[" ^ String.concat "," (List.map jd l) ^ "]"
          | JObj l -> "{" ^ String.concat "," (List.map (fun (k, v) -> "\"" ^ str_of k ^ "\":" ^ jd v) l) ^ "}") in
        let e = (match json_encode g with Some j -> jd j | None -> "NOWRITE") in
        let r = (match json_roundtrip g with Some g' -> dump g' | None -> "FAIL") in
        print_endline (Printf.sprintf "I=%s|E=%s|R=%s" (dump g) e r)
      | _ -> print_endline "?"
    with e -> print_endline ("MODEL-ERROR " ^ Printexc.to_string e))
  done with End_of_file -> ()
