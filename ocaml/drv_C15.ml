(* driver for the extracted C15 model: one history per input line, one canonical result line per history.
   line:  H <cap> | op | op ...     ops: I x0 x1 y0 y1 id / B / Q x0 x1 y0 y1 / R x0 x1 y0 y1 id / T / N x0 x1 y0 y1 px py
          S <cap> <n>               -> treeSize sliceCount sliceCapacity
          V lo hi id ; ... | qlo qhi | ...   -> interval-tree query results *)
let zi s = z_of_int (int_of_string s)
let env a b c d = { x0 = zi a; x1 = zi b; y0 = zi c; y1 = zi d }
let parse_op s = match words s with
  | ["I"; a; b; c; d; id] -> Insert (env a b c d, zi id)
  | ["B"] -> Build
  | ["Q"; a; b; c; d] -> Query (env a b c d)
  | ["R"; a; b; c; d; id] -> Remove (env a b c d, zi id)
  | ["T"] -> Iterate
  | ["N"; a; b; c; d; px; py] -> Nearest (env a b c d, zi px, zi py)
  | _ -> failwith ("bad op: " ^ s)
let show_out o = match o with
  | ONone -> "-"
  | OItems l -> "[" ^ String.concat "," (List.map string_of_int (List.sort compare (List.map int_of_z l))) ^ "]"
  | OBool b -> if b then "T" else "F"
  | ONear None -> "N:none"
  | ONear (Some (d, _)) -> "N:" ^ string_of_int (int_of_z d)
  | OIllegal -> "ILLEGAL"
let () =
  try while true do
    let line = input_line stdin in
    match String.split_on_char '|' line with
    | hd :: qs when String.length hd > 0 && hd.[0] = 'V' ->
      (* V lo hi id ; lo hi id ; ... | qlo qhi | ...   -> the model of SortedPackedIntervalRTree (C15/ITVDefs.itv_run) *)
      let items = List.filter_map (fun it -> match words it with [a; b; c] -> Some ((zi a, zi b), zi c) | _ -> None)
          (String.split_on_char ';' (String.sub hd 1 (String.length hd - 1))) in
      let one q = match words q with
        | [a; b] -> "[" ^ String.concat "," (List.map string_of_int (List.sort compare (List.map int_of_z (itv_run items (zi a) (zi b))))) ^ "] "
        | _ -> "" in
      print_endline (String.concat "" (List.map one qs))
    | hd :: ops ->
      (match words hd with
       | ["H"; cap] ->
         let outs = run_top (nat_of_int (int_of_string cap)) (List.map parse_op ops) in
         print_endline (String.concat " " (List.map show_out outs))
       | ["S"; cap; n] ->
         let c = nat_of_int (int_of_string cap) and n = nat_of_int (int_of_string n) in
         let ts = match treeSize c n with Some k -> string_of_int (int_of_nat k) | None -> "nofuel" in
         let sc = sliceCount c n in
         print_endline (Printf.sprintf "%s %d %d" ts (int_of_nat sc) (int_of_nat (sliceCapacity n sc)))
       | _ -> print_endline "?")
    | [] -> print_endline "?"
  done with End_of_file -> ()
