(* C03 clip stream, model side: same lines as harness/c03_clip.cpp.
   CLIP x0 x1 y0 y1 n x y ...  (integers)  -> "OK k x y ..." with every ordinate as num/den in lowest terms
   DD isHole isCCW                          -> "OK depthDelta" of the GENERATED computeDepthDelta with Orientation::isCCW := the given answer *)
let zs = z_of_string
let qz s = { qnum = zs s; qden = XH }
let show_q q = let r = qred q in string_of_z r.qnum ^ "/" ^ string_of_z (Zpos r.qden)
let rec pts l = match l with x :: y :: r -> (qz x, qz y) :: pts r | _ -> []
let () =
  try while true do
    let line = input_line stdin in
    (try match words line with
    | "CLIP" :: x0 :: x1 :: y0 :: y1 :: _ :: toks ->
      let out = clip (box (qz x0) (qz x1) (qz y0) (qz y1)) (pts toks) in
      print_endline (String.concat " " ("OK" :: string_of_int (List.length out) :: List.concat (List.map (fun (x, y) -> [show_q x; show_q y]) out)))
    | "DD" :: h :: c :: _ ->
      print_endline ("OK " ^ string_of_z (c_computeDepthDelta_2 (fun _ -> c = "1") [] (h = "1")))
    | _ -> print_endline "?"
    with Failure s -> print_endline ("ERROR " ^ s) | Stack_overflow -> print_endline "ERROR stack overflow" | Not_found -> print_endline "ERROR not found");
    flush stdout
  done with End_of_file -> ()
