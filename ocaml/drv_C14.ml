(* driver for the extracted C14 model. One operation per input line:
     <N> <swallow 0|1> <n2> <k,k,k,...|->
   output, in the vocabulary of harness/c14.cpp:
     K=<k:code;...> pre=<code> rc=<code> cbrc=<code> prenocb=<code>
   code = A|C [f] p<invocations> [r] n<re-run invocations> [F]   (rc, cbrc, prenocb carry no re-run part) *)
let code with_rerun (((((ab, fl), inv), rab), rfl), rinv) =
  (if ab then "A" else "C") ^ (if fl then "f" else "") ^ "p" ^ string_of_int (int_of_nat inv)
  ^ (if with_rerun then (if rab then "r" else "") ^ "n" ^ string_of_int (int_of_nat rinv) ^ (if rfl then "F" else "") else "")
let () =
  try while true do
    let line = input_line stdin in
    match words line with
    | [n; sw; n2; ks] ->
      let nn = nat_of_int (int_of_string n) and sw = sw = "1" and n2 = nat_of_int (int_of_string n2) in
      let kl = if ks = "-" then [] else List.map int_of_string (String.split_on_char ',' ks) in
      let per = List.map (fun k -> string_of_int k ^ ":" ^ code true (predict_at nn (nat_of_int k) sw n2)) kl in
      let half = (int_of_string n + 1) / 2 in
      Printf.printf "K=%s pre=%s rc=%s cbrc=%s prenocb=%s\n%!" (String.concat ";" per)
        (code true (predict_pre nn sw n2)) (code false (predict_req_cancel nn))
        (code false (predict_cb_req_cancel nn (nat_of_int half))) (code false (predict_pre_nocb nn sw n2))
    | _ -> print_endline "?"
  done with End_of_file -> ()
