(* driver for C02: given a matrix string and the real dimensions, what every path must answer.
   line: <9 chars> <dA> <dB> <pat,pat,...>    output: name=<spec><gen> ...  T=<transposed>  pat=<0/1 per pattern> *)
let dim_of_char c = match c with 'F' -> z_of_int (-1) | '0' -> z_of_int 0 | '1' -> z_of_int 1 | '2' -> z_of_int 2 | 'T' -> z_of_int (-2) | _ -> z_of_int (-3)
let char_of_dim z = match int_of_z z with -1 -> 'F' | 0 -> '0' | 1 -> '1' | 2 -> '2' | _ -> '?'
let b x = if x then '1' else '0'
let explode s = List.init (String.length s) (String.get s)
let () =
  try while true do
    let line = input_line stdin in
    match words line with
    | ms :: da :: db :: rest when String.length ms = 9 ->
      let m = List.map dim_of_char (explode ms) in
      let dA = z_of_int (int_of_string da) and dB = z_of_int (int_of_string db) in
      let pr name s g = Printf.sprintf "%s=%c%c" name (b s) (b g) in
      let outs = [
        pr "intersects" (spec_intersects m) (m_isIntersects_0 m);
        pr "disjoint" (spec_disjoint m) (m_isDisjoint_0 m);
        pr "touches" (spec_touches dA dB m) (m_isTouches_2 m dA dB);
        pr "crosses" (spec_crosses dA dB m) (m_isCrosses_2 m dA dB);
        pr "within" (spec_within m) (m_isWithin_0 m);
        pr "contains" (spec_contains m) (m_isContains_0 m);
        pr "overlaps" (spec_overlaps dA dB m) (m_isOverlaps_2 m dA dB);
        pr "equals" (spec_equals dA dB m) (m_isEquals_2 m dA dB);
        pr "covers" (spec_covers m) (m_isCovers_0 m);
        pr "coveredBy" (spec_coveredBy m) (m_isCoveredBy_0 m);
        Printf.sprintf "containsProperly=%c" (b (spec_containsProperly m));
        "T=" ^ String.init 9 (fun i -> char_of_dim (List.nth (transpose m) i)) ] in
      let pats = match rest with [] -> [] | p :: _ -> List.filter (fun s -> String.length s = 9) (String.split_on_char ',' p) in
      let pm p = let syms = List.map (fun c -> sym_of_code (z_of_int (Char.code c))) (explode p) in
        if List.exists (fun o -> o = None) syms then '?' else
        b (pat_matches (List.map (fun o -> match o with Some s -> s | None -> SAny) syms) m) in
      print_endline (String.concat " " outs ^ " pat=" ^ String.concat "" (List.map (fun p -> String.make 1 (pm p)) pats))
    | _ -> print_endline "?"
  done with End_of_file -> ()
