(* driver for the extracted C19 models / checkers: one request per line, one result line per request.
   numbers: integers in decimal; rationals as  p/q  (q > 0) or p.
   linework:  k  n x y .. n x y ..      (k lines, each n points)           polygons:  m  (r  n x y ..  n x y ..)*m   (r rings, shell first)
   lengths :  k  n s .. n s ..          (k components, each n segment lengths, rationals)
   requests (fields separated by '|'):
     LOC mode len | lengths                       mode 0 = resolve higher, 1 = resolve lower, 2 = plain   -> comp seg frac
     LEN comp seg frac | lengths                  -> rational
     NORM comp seg frac | lengths                 -> comp seg frac
     INTERP d | lengths | linework                -> x y
     PROJ x y | lengths | linework                -> length comp seg frac d2 fold   (or NONE; fold = LRFoldDefs.index_of_q)
     SUBSTR s e | lengths | linework              -> total ; line ; line ..    each line = points  x,y  separated by blanks
     MERGE d | ins | outs                         -> units nodes points
     NODE tn td | ins | outs                      -> disjoint kernel in_on_out out_near_in cover_in cover_out
     POLY | ins | polys | dangles | cuts | invalid -> nodup valid sides edges account dangles cuts disjoint
     SHARED | g1 | g2 | fw | bw                   -> ok *)
let zs = z_of_string
let rec pos_of_z z = match z with Zpos p -> p | _ -> XH
let q_of_string s =
  match String.index_opt s '/' with
  | Some i -> { qnum = zs (String.sub s 0 i); qden = pos_of_z (zs (String.sub s (i + 1) (String.length s - i - 1))) }
  | None -> { qnum = zs s; qden = XH }
(* printed unreduced; the caller reduces *)
let string_of_q q = if q.qden = XH then string_of_z q.qnum else string_of_z q.qnum ^ "/" ^ string_of_z (Zpos q.qden)
exception Parse of string
let rec take_pts n toks = if n = 0 then ([], toks) else
  match toks with x :: y :: r -> let (l, r') = take_pts (n - 1) r in ((zs x, zs y) :: l, r') | _ -> raise (Parse "pts")
let take_seq toks = match toks with n :: r -> take_pts (int_of_string n) r | _ -> raise (Parse "seq")
let rec take_many f n toks = if n = 0 then ([], toks) else
  let (a, r) = f toks in let (l, r') = take_many f (n - 1) r in (a :: l, r')
let lines_of s = match words s with k :: r -> fst (take_many take_seq (int_of_string k) r) | [] -> []
let take_poly toks = match toks with
  | k :: r -> let (rings, r') = take_many take_seq (int_of_string k) r in
    (match rings with [] -> (([], []), r') | s :: hs -> ((s, hs), r'))
  | _ -> raise (Parse "poly")
let polys_of s = match words s with m :: r -> fst (take_many take_poly (int_of_string m) r) | [] -> []
let rec take_qs n toks = if n = 0 then ([], toks) else
  match toks with x :: r -> let (l, r') = take_qs (n - 1) r in (q_of_string x :: l, r') | _ -> raise (Parse "qs")
let take_qseq toks = match toks with n :: r -> take_qs (int_of_string n) r | _ -> raise (Parse "qseq")
let lens_of s = match words s with k :: r -> fst (take_many take_qseq (int_of_string k) r) | [] -> []
let b2s b = if b then "1" else "0"
let show_loc l = Printf.sprintf "%d %d %s" (int_of_nat l.lcomp) (int_of_nat l.lseg) (string_of_q l.lfrac)
let mk_loc c s f = { lcomp = nat_of_int (int_of_string c); lseg = nat_of_int (int_of_string s); lfrac = q_of_string f }
let show_qpt (x, y) = string_of_q x ^ "," ^ string_of_q y
let () =
  try while true do
    let line = input_line stdin in
    (try
      let fields = List.map String.trim (String.split_on_char '|' line) in
      match fields with
      | hd :: rest ->
        (match words hd, rest with
         | ["LOC"; mode; len], [g] ->
           let g = lens_of g and len = q_of_string len in
           let l = (match mode with "2" -> get_location g len | "1" -> get_location_r g len true | _ -> get_location_r g len false) in
           print_endline (show_loc l)
         | ["LEN"; c; s; f], [g] -> print_endline (string_of_q (len_of (lens_of g) (mk_loc c s f)))
         | ["NORM"; c; s; f], [g] -> print_endline (show_loc (normalise (lens_of g) (mk_loc c s f)))
         | ["INTERP"; d], [g; z] -> print_endline (show_qpt (interpolate (lens_of g) (lines_of z) (q_of_string d)))
         | ["PROJ"; x; y], [g; z] ->
           let g = lens_of g and gz = lines_of z and p = (zs x, zs y) in
           (match project_loc gz p with
            | None -> print_endline "NONE"
            | Some l ->
              let q = point_of_loc gz l in
              print_endline (String.concat " " [string_of_q (len_of g l); show_loc l; string_of_q (qd2 (q_of_z p) q); string_of_q (index_of_q g gz p)]))
         | ["SUBSTR"; s; e], [g; z] ->
           let g = lens_of g and gz = lines_of z in
           let t = total g in
           let ls = extract_line g (qmult (q_of_string s) t) (qmult (q_of_string e) t) in
           print_endline (string_of_q (lines_len ls) ^ " ; " ^
             String.concat " ; " (List.map (fun l -> String.concat " " (List.map (fun (lc, _) -> show_qpt (point_of_loc gz lc)) l)) ls))
         | ["MERGE"; d], [i; o] ->
           let d = d = "1" and i = lines_of i and o = lines_of o in
           print_endline (b2s (merge_units_ok d i o) ^ " " ^ b2s (merge_nodes_ok d i o) ^ " " ^ b2s (merge_pts_ok i o))
         | ["NODE"; tn; td], [i; o] ->
           let tn = zs tn and td = zs td and i = lines_of i and o = lines_of o in
           print_endline (String.concat " " (List.map b2s [node_disjoint_ok o; node_kernel_agrees o; node_in_on_out tn td i o;
                                                            node_out_near_in tn td i o; node_cover_in tn td i o; node_cover_out tn td i o]))
         | ["POLY"], [i; p; d; c; r] ->
           let i = lines_of i and p = polys_of p and d = lines_of d and c = lines_of c and r = lines_of r in
           print_endline (String.concat " " (List.map b2s [nodup_segb (useg i); polyg_valid_ok p; polyg_sides_ok p; polyg_edges_in i p;
                                                            polyg_account_ok i p d c r; polyg_dangles_ok i d; polyg_cuts_ok i c; polyg_disjoint_ok p]))
         | ["SHARED"], [a; b; f; w] ->
           print_endline (b2s (shared_check (lines_of a) (lines_of b) (lines_of f) (lines_of w)))
         | _ -> print_endline "?")
      | [] -> print_endline "?"
    with Parse s -> print_endline ("PARSE-ERROR " ^ s) | Failure s -> print_endline ("ERROR " ^ s) | Not_found -> print_endline "ERROR notfound");
    flush stdout
  done with End_of_file -> ()
