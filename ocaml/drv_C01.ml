(* driver for the extracted C01 oracle: one query per input line, one result line per query.
   geometry text (same as drv_C05): PT E | PT x y | LS n x y.. | LR n x y.. | PG k (n x y..)*k | MPT m (E | x y)*m
     | MLS m (n x y..)*m | MPG m (k (n x y..)*k)*m | GC m geom*m       (integer grid coordinates)
   queries:
     R <opts> <pats> ; <geom A> ; <geom B>
        opts: letters  s = also evaluate the slow specification relate_spec (mod-2) and print SPEC=
                       e = print the oracle's events (mod-2), first occurrences in order, as ev=<la><lb><d>... for drv_C01p
                       t = also print the oracle for the transformed pairs (translate, reflect, swap): TR=
                       - = nothing extra
        pats: comma separated 9-letter patterns or "-"
     -> "valid=ab scope=ab dims=dA,dB M=<mod2>,<endpoint>,<multivalent>,<monovalent> MT=<mod2 matrix of (B,A)> sideok=0/1 epsok=0/1
         fragile=<number of nodes that are not binary64 points and lie on >= 3 segments> inexact=<nodes that are not binary64 points>
         named=<11 chars 0/1: intersects disjoint touches crosses within contains overlaps equals covers coveredBy containsProperly>
         pat=<0/1 per pattern> nw=<witnesses> nn=<nodes> ns=<segments> ea=<envelope A> eb=<envelope B> [SPEC=..] [ev=..] [TR=m,m,m,m]"
        (when a geometry is not valid / not in scope only valid= scope= dims= are printed; scope = valid and all polygons of
         the geometry together form a valid MultiPolygon)
     P <matrix> <pat,pat,..>  -> 0/1 per pattern (Lib/IM.pat_matches)
     W <geom A> ; <geom B>   -> the witness family with locations (debugging): x/y/w:dim:locA locB ...  *)
let zs = z_of_string
exception Parse of string
let rec take_pts n toks = if n = 0 then ([], toks) else
  match toks with x :: y :: r -> let (l, r') = take_pts (n - 1) r in ((zs x, zs y) :: l, r') | _ -> raise (Parse "pts")
let take_seq toks = match toks with n :: r -> take_pts (int_of_string n) r | _ -> raise (Parse "seq")
let rec take_many f n toks = if n = 0 then ([], toks) else
  let (a, r) = f toks in let (l, r') = take_many f (n - 1) r in (a :: l, r')
let take_poly toks = match toks with
  | k :: r -> let (rings, r') = take_many take_seq (int_of_string k) r in
    (match rings with [] -> (([], []), r') | s :: hs -> ((s, hs), r'))
  | _ -> raise (Parse "poly")
let take_optpt toks = match toks with
  | "E" :: r -> (None, r)
  | x :: y :: r -> (Some (zs x, zs y), r)
  | _ -> raise (Parse "optpt")
let rec take_geom toks = match toks with
  | "PT" :: r -> let (p, r') = take_optpt r in (GPoint p, r')
  | "LS" :: r -> let (l, r') = take_seq r in (GLine l, r')
  | "LR" :: r -> let (l, r') = take_seq r in (GRing l, r')
  | "PG" :: r -> let ((s, hs), r') = take_poly r in (GPoly (s, hs), r')
  | "MPT" :: m :: r -> let (l, r') = take_many take_optpt (int_of_string m) r in (GMPoint l, r')
  | "MLS" :: m :: r -> let (l, r') = take_many take_seq (int_of_string m) r in (GMLine l, r')
  | "MPG" :: m :: r -> let (l, r') = take_many take_poly (int_of_string m) r in (GMPoly l, r')
  | "GC" :: m :: r -> let (l, r') = take_many take_geom (int_of_string m) r in (GColl l, r')
  | t :: _ -> raise (Parse ("geom " ^ t))
  | [] -> raise (Parse "geom: end of input")
let char_of_dim z = match int_of_z z with -1 -> 'F' | 0 -> '0' | 1 -> '1' | 2 -> '2' | _ -> '?'
let mstr m = String.init (List.length m) (fun i -> char_of_dim (List.nth m i))
let b x = if x then '1' else '0'
let bstr l = String.init (List.length l) (fun i -> b (List.nth l i))
let explode s = List.init (String.length s) (String.get s)
let split_semi toks =
  let rec go acc cur = function
    | [] -> List.rev (List.rev cur :: acc)
    | ";" :: r -> go (List.rev cur :: acc) [] r
    | t :: r -> go acc (t :: cur) r in
  go [] [] toks
let rules = [Mod2; EndPoint; MultiValentEndPoint; MonoValentEndPoint]
let lchar l = match l with Interior -> 'I' | Boundary -> 'B' | Exterior -> 'E'
let pm m p =
  let syms = List.map (fun c -> sym_of_code (z_of_int (Char.code c))) (explode p) in
  if List.exists (fun o -> o = None) syms then '?' else
  b (pat_matches (List.map (fun o -> match o with Some s -> s | None -> SAny) syms) m)
let () =
  try while true do
    let line = input_line stdin in
    (try match words line with
    | "R" :: opts :: pats :: rest ->
      (match (match split_semi rest with [] :: r -> r | r -> r) with
       | [ ta; tb ] ->
         let (ga, _) = take_geom ta and (gb, _) = take_geom tb in
         let va = valid_geom ga and vb = valid_geom gb in
         let dA = dim_real ga and dB = dim_real gb in
         let sa = va && in_scope ga and sb = vb && in_scope gb in
         let head = Printf.sprintf "valid=%c%c scope=%c%c dims=%d,%d" (b va) (b vb) (b sa) (b sb) (int_of_z dA) (int_of_z dB) in
         if not (sa && sb) then print_endline head else begin
           (* the rule enters only through the boundary of lines (LocateDefs.loc_lines): without lines one evaluation serves all four *)
           let nolines = lines_of ga = [] && lines_of gb = [] in
           let runs = List.map (fun r -> oracle_run r ga gb) (if nolines then [Mod2] else rules) in
           let ms = if nolines then (let m = fst (List.hd runs) in [m; m; m; m]) else List.map fst runs in
           let m = List.hd ms in
           let mt = relate_oracle Mod2 gb ga in
           let sok = List.for_all snd runs in
           let named = named_values dA dB m in
           let pl = if pats = "-" then [] else List.filter (fun s -> String.length s = 9) (String.split_on_char ',' pats) in
           let extra = Buffer.create 64 in
           if String.contains opts 's' then Buffer.add_string extra (" SPEC=" ^ mstr (relate_spec Mod2 ga gb));
           let envs e = match e with None -> "-" | Some (((a, b0), c), d) -> String.concat "," (List.map string_of_z [a; b0; c; d]) in
           Buffer.add_string extra (Printf.sprintf " ea=%s eb=%s" (envs (env_of ga)) (envs (env_of gb)));
           if String.contains opts 'e' then begin
             let evs = oracle_events Mod2 ga gb in
             let seen = Hashtbl.create 27 in
             let b = Buffer.create 81 in
             List.iter (fun ((la, lb), d) -> let k = (int_of_z la, int_of_z lb, int_of_z d) in
               if not (Hashtbl.mem seen k) then begin Hashtbl.add seen k (); let (x, y, z) = k in Buffer.add_string b (Printf.sprintf "%d%d%d" x y z) end) evs;
             Buffer.add_string extra (" ev=" ^ (if Buffer.length b = 0 then "-" else Buffer.contents b))
           end;
           if String.contains opts 't' then begin
             let tr f = mstr (relate_oracle Mod2 (map_geom f ga) (map_geom f gb)) in
             Buffer.add_string extra (" TR=" ^ String.concat "," [tr (translate (z_of_int 7, z_of_int (-13))); tr reflect_x; tr reflect_y; tr swap_xy])
           end;
           let fr = fragile_nodes ga gb in
           let nx = List.length (List.filter (fun q -> not (representable q)) (nodes ga gb)) in
           (match fr with ((x, y), w) :: _ -> Buffer.add_string extra (Printf.sprintf " fnode=%s/%s/%s" (string_of_z x) (string_of_z y) (string_of_z w)) | [] -> ());
           Printf.printf "%s M=%s MT=%s sideok=%c epsok=%c fragile=%d inexact=%d named=%s pat=%s nw=%d nn=%d ns=%d%s\n" head
             (String.concat "," (List.map mstr ms)) (mstr mt) (b sok) (b (eps_ok ga gb)) (List.length fr) nx (bstr named)
             (String.concat "" (List.map (fun p -> String.make 1 (pm m p)) pl))
             (List.length (witnesses ga gb)) (List.length (nodes ga gb)) (List.length (all_segs ga gb)) (Buffer.contents extra)
         end
       | _ -> print_endline "PARSE-ERROR expected <geom> ; <geom>")
    | "P" :: ms :: pats :: _ when String.length ms = 9 ->
      let m = List.map (fun c -> match c with 'F' -> z_of_int (-1) | '0' -> z_of_int 0 | '1' -> z_of_int 1 | _ -> z_of_int 2) (explode ms) in
      print_endline (String.concat "" (List.map (fun p -> String.make 1 (pm m p)) (List.filter (fun s -> String.length s = 9) (String.split_on_char ',' pats))))
    | "E" :: rest ->
      (* debugging: the side paths that eps_ok rejects, with the ring segment they may meet *)
      (match split_semi rest with
       | [ ta; tb ] ->
         let (ga, _) = take_geom ta and (gb, _) = take_geom tb in
         let rs = List.filter (fun (c, d) -> c <> d) (ring_segs ga @ ring_segs gb) in
         let sh ((x, y), w) = Printf.sprintf "%s/%s/%s" (string_of_z x) (string_of_z y) (string_of_z w) in
         let sp (x, y) = Printf.sprintf "(%s %s)" (string_of_z x) (string_of_z y) in
         List.iter (fun ((((a, b0), sg), m), p) ->
           List.iter (fun (c, d) -> if not (side_clear [(c, d)] sg a b0 m p) then
             Printf.printf "seg %s-%s mid %s side %s meets? %s-%s; " (sp a) (sp b0) (sh m) (sh p) (sp c) (sp d)) rs) (side_paths ga gb);
         print_endline "."
       | _ -> print_endline "PARSE-ERROR expected <geom> ; <geom>")
    | "W" :: rest ->
      (match split_semi rest with
       | [ ta; tb ] ->
         let (ga, _) = take_geom ta and (gb, _) = take_geom tb in
         let ws = witnesses ga gb in
         print_endline (String.concat " " (List.map (fun (((x, y), w), d) ->
           let q = ((x, y), w) in
           let (la, da) = loc_dim_fast Mod2 ga q and (lb, db) = loc_dim_fast Mod2 gb q in
           Printf.sprintf "%s/%s/%s:%d:%c%d%c%d" (string_of_z x) (string_of_z y) (string_of_z w) (int_of_z d) (lchar la) (int_of_z da) (lchar lb) (int_of_z db)) ws))
       | _ -> print_endline "PARSE-ERROR expected <geom> ; <geom>")
    | _ -> print_endline "?"
    with Parse s -> print_endline ("PARSE-ERROR " ^ s) | Failure s -> print_endline ("ERROR " ^ s) | Stack_overflow -> print_endline "ERROR stack overflow");
    flush stdout
  done with End_of_file -> ()
