(* driver for the extracted C11 reader models.  argv: <wkb max_depth|none> <cc_guard 0|1> [<wkt max_depth|none>]
   one case per line:  B <hex of WKB bytes> | H <hex of the HEX text> | T <hex of the WKT text>; lower-case b / h / t = the same reader
   with the option fix-structure on (GEOSWKBReader_setFixStructure_r / GEOSWKTReader_setFixStructure_r)
   one result per line: ACC <structure> (ACC? = accepted unless the floating-point envelope of a non-tame arc throws) srid=<n> | <stats>   or   REJ <error> | <stats>   or   UB | <stats>   or  FUEL *)
let max_depth = if Array.length Sys.argv > 1 && Sys.argv.(1) <> "none" then Some (z_of_int (int_of_string Sys.argv.(1))) else None
let guard = Array.length Sys.argv > 2 && Sys.argv.(2) = "1"
let cfg = { max_depth = max_depth; cc_guard = guard; fix_rings = false }
(* the WKT reader has its own limit (third argument; defaults to the first) *)
let cfg_wkt = { max_depth = (if Array.length Sys.argv > 3 then (if Sys.argv.(3) <> "none" then Some (z_of_int (int_of_string Sys.argv.(3))) else None) else max_depth); cc_guard = guard; fix_rings = false }

let hexv c = match c with
  | '0'..'9' -> Char.code c - 48 | 'a'..'f' -> Char.code c - 87 | 'A'..'F' -> Char.code c - 55 | _ -> failwith "hex"
(* small Z constants are shared: one table of the 256 byte values *)
let ztab = Array.init 256 z_of_int
let bytes_of_hex (s : string) : int list =
  let n = String.length s / 2 in
  let rec go i acc = if i < 0 then acc else go (i - 1) ((hexv s.[2 * i] * 16 + hexv s.[2 * i + 1]) :: acc) in
  go (n - 1) []
let zlist l = List.rev (List.rev_map (fun b -> ztab.(b)) l)

let zi = int_of_z
let flags q = (if q.cz then "z" else "") ^ (if q.cm then "m" else "")
let show_geom (g : geom) : string =
  let b = Buffer.create 256 in
  let seq tag q = Buffer.add_string b (Printf.sprintf "%s:%d%s" tag (zi q.cn) (flags q)) in
  let rec go g = match g with
    | GPoint q -> seq "pt" q
    | GLine q -> seq "ls" q
    | GCirc q -> seq "cs" q
    | GPoly rings ->
      Buffer.add_string b "pg[";
      List.iteri (fun i q -> if i > 0 then Buffer.add_char b ','; seq "r" q) rings;
      Buffer.add_char b ']'
    | GNest (k, l) ->
      let k = zi k in
      Buffer.add_string b (match k with 9 -> "cc[" | 10 -> "cp[" | 4 -> "mp[" | 5 -> "ml[" | 6 -> "mg[" | 7 -> "gc[" | 11 -> "mc[" | 12 -> "ms[" | _ -> "??[");
      List.iteri (fun i x -> if i > 0 then Buffer.add_char b ','; go x) l;
      Buffer.add_char b ']'
  in go g; Buffer.contents b
let show_err e = match e with
  | EEof -> "eof" | ETooSmall -> "toosmall" | EUnknownType -> "unknowntype" | EChildType -> "childtype" | ECtor -> "ctor"
  | ETooDeep -> "toodeep" | EUB -> "UB" | EOob -> "OOB" | EParse -> "parse"
let show_stats t =
  Printf.sprintf "pos=%d coords=%d slots=%d nodes=%d dmax=%d quad=%d" (zi t.pos) (zi t.coords) (zi t.slots) (zi t.nodes) (zi t.dmax) (zi t.quad)

let run_wkb ?(fx = false) (bytes : int list) : string =
  let input = zlist bytes in
  match wkb_read { cfg with fix_rings = fx } input with
  | Ok ((g, _), s) -> Printf.sprintf "%s %s srid=%d | %s" (if g_risky g then "ACC?" else "ACC") (show_geom g) (zi (top_srid input)) (show_stats s.stt)
  | Err (EUB, t) -> "UB | " ^ show_stats t
  | Err (e, t) -> Printf.sprintf "REJ %s | %s" (show_err e) (show_stats t)
  | Fuel -> "FUEL"

(* strtod's value for a token the model classified as a number (OCaml's float_of_string calls strtod for decimal text and
   has its own exact hex-float parser) *)
let z_of_int64_unsigned (v : int64) : z =
  let lo = Int64.to_int (Int64.logand v 0xFFFFFFFFL) and hi = Int64.to_int (Int64.shift_right_logical v 32) in
  (* hi * 2^32 + lo with extracted arithmetic kept small: build from the decimal string *)
  z_of_string (Printf.sprintf "%Lu" v) |> fun z -> ignore lo; ignore hi; z
let numval (cs : char list) : z =
  let s = String.of_seq (List.to_seq cs) in
  let s = String.trim s |> fun t -> (* strtod skips \v \f as well *) String.concat "" (String.split_on_char '\011' t) |> fun t -> String.concat "" (String.split_on_char '\012' t) in
  let f = try float_of_string s with Failure _ -> failwith ("numval: " ^ String.escaped s) in
  z_of_int64_unsigned (Int64.bits_of_float f)
let show_wstats t =
  Printf.sprintf "pos=%d toks=%d coords=%d elems=%d nodes=%d dmax=%d quad=%d" (zi t.wpos) (zi t.wtoks) (zi t.wcoords) (zi t.welems) (zi t.wnodes) (zi t.wdmax) (zi t.wquad)
let run_wkt ?(fx = false) (bytes : int list) : string =
  let input = List.map Char.chr bytes in
  match wkt_read numval { cfg_wkt with fix_rings = fx } input with
  | WOk ((g, _), s) -> Printf.sprintf "%s %s srid=0 | %s" (if g_risky g then "ACC?" else "ACC") (show_geom g) (show_wstats s.wst)
  | WErr (EUB, t) -> "UB | " ^ show_wstats t
  | WErr (e, t) -> Printf.sprintf "REJ %s | %s" (show_err e) (show_wstats t)
  | WFuel -> "FUEL"

let () =
  try while true do
    let line = input_line stdin in
    let out =
      try
        match String.index_opt line ' ' with
        | None -> if line = "B" || line = "H" || line = "T" || line = "b" || line = "h" || line = "t" then
                    (match line with "B" | "H" | "b" | "h" -> run_wkb [] | _ -> run_wkt []) else "?"
        | Some i ->
          let mode = String.sub line 0 i and payload = String.sub line (i + 1) (String.length line - i - 1) in
          (match mode with
           | "B" | "b" -> run_wkb ~fx:(mode = "b") (bytes_of_hex payload)
           | "H" | "h" -> (match hex_decode (zlist (bytes_of_hex payload)) with
                     | Some bs -> run_wkb ~fx:(mode = "h") (List.map zi bs)
                     | None -> "REJ hex | pos=0 coords=0 slots=0 nodes=0 dmax=0 quad=0")
           | "T" | "t" -> run_wkt ~fx:(mode = "t") (bytes_of_hex payload)
           | "N" -> if is_number (List.map Char.chr (bytes_of_hex payload)) then "NUM" else "WORD"
           | _ -> "?")
      with Stack_overflow -> "MODEL-STACK-OVERFLOW" | Failure m -> "MODEL-FAIL " ^ m
    in
    print_string out; print_newline ()
  done with End_of_file -> ()
