(* driver for C01, part 2: the GENERATED RelateNG predicate classes on the events the core oracle (drv_C01) reported.
   line:   V <dA> <dB> <envA> <envB> <events> <m1,m2,m3,m4>
             env: "-" (null) or minx,maxx,miny,maxy ; events: <la><lb><d>... (digits) or "-" ; m_i: the four oracle matrices
   output: EV=<10 chars: intersects disjoint touches crosses within contains overlaps equals covers coveredBy> EVR=<same, events reversed>
           FIN=<matrix accumulated from the events> real=<0/1: every m_i passes the decision procedure of PredSound.realizable> *)
let b x = if x then '1' else '0'
let bstr l = String.init (List.length l) (fun i -> b (List.nth l i))
let char_of_dim z = match int_of_z z with -1 -> 'F' | 0 -> '0' | 1 -> '1' | 2 -> '2' | _ -> '?'
let mstr m = String.init (List.length m) (fun i -> char_of_dim (List.nth m i))
let explode s = List.init (String.length s) (String.get s)
let dim_of_char c = match c with 'F' -> z_of_int (-1) | '0' -> z_of_int 0 | '1' -> z_of_int 1 | _ -> z_of_int 2
let env_of_string s = if s = "-" then None else
  match List.map z_of_string (String.split_on_char ',' s) with
  | [a; b; c; d] -> Some (((a, b), c), d)
  | _ -> failwith "env"
let () =
  try while true do
    let line = input_line stdin in
    (try match words line with
    | ["V"; da; db; ea; eb; evs; ms] ->
      let dA = z_of_int (int_of_string da) and dB = z_of_int (int_of_string db) in
      let eA = env_of_string ea and eB = env_of_string eb in
      let dg c = z_of_int (Char.code c - 48) in
      let rec triples l = match l with a :: b :: c :: r -> ((dg a, dg b), dg c) :: triples r | _ -> [] in
      let evl = if evs = "-" then [] else triples (explode evs) in
      let vts = [vt_intersects; vt_disjoint; vt_touches; vt_crosses; vt_within; vt_contains; vt_overlaps; vt_equals; vt_covers; vt_coveredBy] in
      let mats = List.map (fun s -> List.map dim_of_char (explode s)) (String.split_on_char ',' ms) in
      Printf.printf "EV=%s EVR=%s FIN=%s real=%c\n"
        (bstr (List.map (fun vt -> evaluate vt dA dB eA eB evl) vts))
        (bstr (List.map (fun vt -> evaluate vt dA dB eA eB (List.rev evl)) vts))
        (mstr (ofinal evl))
        (b (List.for_all (fun m -> realizable_b dA dB eA eB m) mats))
    | _ -> print_endline "?"
    with Failure s -> print_endline ("ERROR " ^ s));
    flush stdout
  done with End_of_file -> ()
