(* driver for the extracted C09 model.  One case per input line, one canonical result line per case.
   G <geom>          -> WF=b REG=b ; ORIG=<geom> ; <cfg>=<HEX>><reread | ERR> ; ... ; IDEAL=<one bit per cfg: reread = what the property text promises>   (24 writer configurations + 6 legacy ones)
   R <hex text>      -> <reread | ERR>                                                   (model reader on arbitrary text)
   T <fl> <s> <code> <z> <m>  -> type word and its decoding
   geometry syntax (also the output syntax), [..] = repetition:
     PT|LS|LR|CS <srid> <XY|XYZ|XYM|XYZM> <n> [16-hex-digit word]          n coordinates, only the ordinates the sequence carries
     PG <srid> <nrings, 1 or more> [<dims> <n> [word]]                       shell first
     CC <srid> <nsec> [LS|LR|CS ...]      CP <srid> <nrings, 1 or more> [curve]      MP|ML|MG|GC|MC|MS <srid> <n> [geom]
*)
let n_of_int64 (x: int64) : n =
  let acc = ref None in
  for i = 63 downto 0 do
    let bit = Int64.logand (Int64.shift_right_logical x i) 1L = 1L in
    acc := (match !acc with None -> if bit then Some XH else None | Some p -> Some (if bit then XI p else XO p))
  done;
  match !acc with None -> N0 | Some p -> Npos p
let int64_of_n (v: n) : int64 =
  let rec go p = match p with XH -> 1L | XO q -> Int64.shift_left (go q) 1 | XI q -> Int64.logor (Int64.shift_left (go q) 1) 1L in
  match v with N0 -> 0L | Npos p -> go p
let n_of_hex s = n_of_int64 (Int64.of_string ("0x" ^ s))
let hex_of_n v = Printf.sprintf "%016Lx" (int64_of_n v)
let n_of_small i = n_of_int64 (Int64.of_int i)
let small_of_n v = Int64.to_int (int64_of_n v)
let srid_of_string s = n_of_int64 (Int64.logand (Int64.of_string s) 0xFFFFFFFFL)
let string_of_srid v = let x = int64_of_n v in Int64.to_string (if Int64.compare x 0x80000000L >= 0 then Int64.sub x 0x100000000L else x)
let nan64 = n_of_hex "7ff8000000000000"

exception Bad of string
let dims_of = function "XY" -> (false, false) | "XYZ" -> (true, false) | "XYM" -> (false, true) | "XYZM" -> (true, true) | s -> raise (Bad ("dims " ^ s))
let dims_str z m = match z, m with false, false -> "XY" | true, false -> "XYZ" | false, true -> "XYM" | true, true -> "XYZM"

(* token stream *)
let toks = ref [||] and pos = ref 0
let next () = if !pos >= Array.length !toks then raise (Bad "eof") else (let t = !toks.(!pos) in incr pos; t)
let parse_seq () =
  let (z, m) = dims_of (next ()) in
  let n = int_of_string (next ()) in
  let rec go k acc = if k = 0 then List.rev acc else begin
    let x = n_of_hex (next ()) in let y = n_of_hex (next ()) in
    let vz = if z then n_of_hex (next ()) else nan64 in
    let vm = if m then n_of_hex (next ()) else nan64 in
    go (k - 1) ({ cx = x; cy = y; cz = vz; cm = vm } :: acc) end in
  { hz = z; hm = m; pts = go n [] }
let rec parse_geom () =
  let tag = next () in
  let srid = srid_of_string (next ()) in
  let many f = let n = int_of_string (next ()) in let rec go k acc = if k = 0 then List.rev acc else (let x = f () in go (k - 1) (x :: acc)) in go n [] in
  match tag with
  | "PT" -> GPoint (srid, parse_seq ())
  | "LS" -> GSimple (SLine, srid, parse_seq ())
  | "LR" -> GSimple (SRing, srid, parse_seq ())
  | "CS" -> GSimple (SCirc, srid, parse_seq ())
  | "PG" -> (match many parse_seq with sh :: hs -> GPoly (srid, sh, hs) | [] -> raise (Bad "PG needs a shell"))
  | "CC" -> GCompound (srid, many (fun () -> match parse_geom () with GSimple (k, sr, s) -> ((k, sr), s) | _ -> raise (Bad "CC section")))
  | "CP" -> (match many parse_geom with sh :: hs -> GCurvePoly (srid, sh, hs) | [] -> raise (Bad "CP needs a shell"))
  | "MP" -> GColl (CMPoint, srid, many parse_geom)
  | "ML" -> GColl (CMLine, srid, many parse_geom)
  | "MG" -> GColl (CMPoly, srid, many parse_geom)
  | "GC" -> GColl (CGC, srid, many parse_geom)
  | "MC" -> GColl (CMCurve, srid, many parse_geom)
  | "MS" -> GColl (CMSurf, srid, many parse_geom)
  | t -> raise (Bad ("tag " ^ t))

let buf = Buffer.create 65536
let add s = Buffer.add_string buf s
let dump_seq s =
  add (dims_str s.hz s.hm); add " "; add (string_of_int (List.length s.pts));
  List.iter (fun p -> add " "; add (hex_of_n p.cx); add " "; add (hex_of_n p.cy);
              if s.hz then (add " "; add (hex_of_n p.cz)); if s.hm then (add " "; add (hex_of_n p.cm))) s.pts
let sk = function SLine -> "LS" | SRing -> "LR" | SCirc -> "CS"
let ck = function CMPoint -> "MP" | CMLine -> "ML" | CMPoly -> "MG" | CGC -> "GC" | CMCurve -> "MC" | CMSurf -> "MS"
let rec dump_geom g = match g with
  | GPoint (sr, s) -> add "PT "; add (string_of_srid sr); add " "; dump_seq s
  | GSimple (k, sr, s) -> add (sk k); add " "; add (string_of_srid sr); add " "; dump_seq s
  | GPoly (sr, sh, hs) -> add "PG "; add (string_of_srid sr); add " "; add (string_of_int (1 + List.length hs));
      List.iter (fun s -> add " "; dump_seq s) (sh :: hs)
  | GCompound (sr, secs) -> add "CC "; add (string_of_srid sr); add " "; add (string_of_int (List.length secs));
      List.iter (fun ((k, ssr), s) -> add " "; dump_geom (GSimple (k, ssr, s))) secs
  | GCurvePoly (sr, sh, hs) -> add "CP "; add (string_of_srid sr); add " "; add (string_of_int (1 + List.length hs));
      List.iter (fun g -> add " "; dump_geom g) (sh :: hs)
  | GColl (k, sr, ks) -> add (ck k); add " "; add (string_of_srid sr); add " "; add (string_of_int (List.length ks));
      List.iter (fun g -> add " "; dump_geom g) ks

let add_chars (l: n list) = List.iter (fun c -> Buffer.add_char buf (Char.chr (small_of_n c))) l
let cfg_name c =
  (match c.c_bo with LE -> "L" | BE -> "B") ^ (match c.c_fl with Ext -> "E" | Iso -> "I") ^
  (match c.c_dim with D2 -> "2" | D3 -> "3" | D4 -> "4") ^ (if c.c_srid then "S" else "N")
let b01 b = if b then "1" else "0"

let ideal_flags = Buffer.create 64
let run_cfg name c g =
  add " ; "; add name; add "=";
  let hx = hex_write c g in
  add_chars hx; add ">";
  (* read the HEX text back (readHEX = unhex + read); the binary path is the same function after unhex *)
  let r = hex_read hx in
  (match r with
   | Ok (g', rest) ->
     if rest <> [] then add "TRAILING " ;
     dump_geom g';
     (* the theorem says g' = expect c g ; checked here as a self test of the extraction *)
     if g' <> expect c g then add " !EXPECT-MISMATCH";
     (* re-writing the re-read geometry: same bytes? (the harness prints the same marker) *)
     let hx2 = hex_write c g' in
     if hx2 <> hx then (add " !REWRITE-DIFFERS:"; add_chars hx2)
   | Err _ -> add "ERR");
  Buffer.add_string ideal_flags (b01 (match r with Ok (g', _) -> g' = ideal c g | Err _ -> false))

let chars_of_string s = List.init (String.length s) (fun i -> n_of_small (Char.code s.[i]))

let () =
  try while true do
    let line = input_line stdin in
    Buffer.clear buf;
    (try
      let ws = Array.of_list (List.filter (fun w -> w <> "") (String.split_on_char ' ' (String.trim line))) in
      if Array.length ws = 0 then add "?" else begin
      toks := ws; pos := 1;
      match ws.(0) with
      | "G" ->
        let g = parse_geom () in
        if !pos <> Array.length ws then raise (Bad "trailing tokens");
        add "WF="; add (b01 (wf g)); add " REG="; add (b01 (regular g));
        add " ; ORIG="; dump_geom g;
        Buffer.clear ideal_flags;
        List.iter (fun c -> run_cfg (cfg_name c) c g) all_cfgs;
        List.iter (fun b -> List.iter (fun d -> let c = legacy_cfg b d in run_cfg ("leg" ^ cfg_name c) c g) [D2; D3; D4]) [LE; BE];
        add " ; IDEAL="; add (Buffer.contents ideal_flags)
      | "R" ->
        let s = if Array.length ws > 1 then ws.(1) else "" in
        (match hex_read (chars_of_string s) with
         | Ok (g', _) -> dump_geom g'
         | Err _ -> add "ERR")
      | "T" ->
        let fl = if ws.(1) = "E" then Ext else Iso in
        let tw = type_word fl (ws.(2) = "1") (n_of_small (int_of_string ws.(3))) (ws.(4) = "1") (ws.(5) = "1") in
        let (((code, z), m), s) = decode_type tw in
        add (Printf.sprintf "%Ld %d %s %s %s" (int64_of_n tw) (small_of_n code) (b01 z) (b01 m) (b01 s))
      | _ -> add "?"
      end
    with Bad m -> Buffer.clear buf; add ("BAD-LINE " ^ m)
       | Failure m -> Buffer.clear buf; add ("BAD-LINE " ^ m)
       | Invalid_argument m -> Buffer.clear buf; add ("BAD-LINE " ^ m));
    print_endline (Buffer.contents buf)
  done with End_of_file -> ()
