(* driver for the extracted C08 model (exact distance oracle): one case per input line, one result line per case.
   line:   <requests> | <geometry A> | <geometry B> | <integers: extra points x y x y ...>
   geometry (prefix form, integer ordinates = binary64 ordinates scaled by one common power of two per case):
           PE | P x y | L n x1 y1 .. xn yn | A k n1 pts .. nk pts (polygon, k rings, k = 0 empty) | C k g1 .. gk (multi / collection)
   requests (space separated), each printing one token  num/den | none :
           FD     facet_dist2 A B and dist2 A B (two tokens, one computation)
           D      dist2 A B                F      facet_dist2 A B
           DT     dist2 B A (transposed)   FT     facet_dist2 B A
           H n    hausdorff2 n A B (in units multiplied by n)        HA n / HB n   directed A->B / B->A
           R n    frechet2 n A B   (in units multiplied by n)
           MA     minclear2 A              MB     minclear2 B
           NA i   dist2 (POINT extra_i) A  NB i   dist2 (POINT extra_i) B      (extra point number i, from 0)
           PP i j squared distance between extra points i and j
   line:   S n    -> the facet sequence ranges start:end of a coordinate sequence of n points (model of addFacetSequences) *)
let zs = z_of_string
let rec take_pts n toks acc =
  if n = 0 then (List.rev acc, toks) else
  match toks with
  | x :: y :: r -> take_pts (n - 1) r ((zs x, zs y) :: acc)
  | _ -> failwith "pts"
let rec parse_geom toks = match toks with
  | "PE" :: r -> (GPoint None, r)
  | "P" :: x :: y :: r -> (GPoint (Some (zs x, zs y)), r)
  | "L" :: n :: r -> let (p, r') = take_pts (int_of_string n) r [] in (GLine p, r')
  | "A" :: k :: r ->
    let k = int_of_string k in
    let rec rings k toks acc = if k = 0 then (List.rev acc, toks) else
      (match toks with n :: r -> let (p, r') = take_pts (int_of_string n) r [] in rings (k - 1) r' (p :: acc) | _ -> failwith "ring") in
    let (rs, r') = rings k r [] in
    (match rs with [] -> (GPoly ([], []), r') | s :: hs -> (GPoly (s, hs), r'))
  | "C" :: k :: r ->
    let k = int_of_string k in
    let rec elems k toks acc = if k = 0 then (List.rev acc, toks) else
      let (g, r') = parse_geom toks in elems (k - 1) r' (g :: acc) in
    let (gs, r') = elems k r [] in (GColl gs, r')
  | t :: _ -> failwith ("geom token " ^ t)
  | [] -> failwith "geom: end"
let show_rat r = string_of_z r.rn ^ "/" ^ string_of_z r.rd
let show_o o = match o with Some (r, _) -> show_rat r | None -> "none"
let show_r o = match o with Some r -> show_rat r | None -> "none"
let () =
  try while true do
    let line = input_line stdin in
    (try
      match String.split_on_char '|' line with
      | [reqs; a; b; ex] ->
        let (ga, _) = parse_geom (words a) and (gb, _) = parse_geom (words b) in
        let exw = words ex in
        let (exs, _) = take_pts (List.length exw / 2) exw [] in
        let exa = Array.of_list exs in
        let zn n = z_of_int (int_of_string n) in
        let rec go toks acc = match toks with
          | [] -> List.rev acc
          | "FD" :: r -> let (f, d) = facet_and_dist2 ga gb in go r (show_o d :: show_o f :: acc)
          | "D" :: r -> go r (show_o (dist2 ga gb) :: acc)
          | "DT" :: r -> go r (show_o (dist2 gb ga) :: acc)
          | "F" :: r -> go r (show_o (facet_dist2 ga gb) :: acc)
          | "FT" :: r -> go r (show_o (facet_dist2 gb ga) :: acc)
          | "H" :: n :: r -> go r (show_r (hausdorff2 (zn n) ga gb) :: acc)
          | "HA" :: n :: r -> go r (show_o (directed_h2 (zn n) ga gb) :: acc)
          | "HB" :: n :: r -> go r (show_o (directed_h2 (zn n) gb ga) :: acc)
          | "R" :: n :: r -> go r ((match frechet2 (zn n) ga gb with Some v -> string_of_z v ^ "/1" | None -> "none") :: acc)
          | "MA" :: r -> go r (show_r (minclear2 ga) :: acc)
          | "MB" :: r -> go r (show_r (minclear2 gb) :: acc)
          | "NA" :: i :: r -> go r (show_o (dist2 (GPoint (Some exa.(int_of_string i))) ga) :: acc)
          | "NB" :: i :: r -> go r (show_o (dist2 (GPoint (Some exa.(int_of_string i))) gb) :: acc)
          | "PP" :: i :: j :: r -> go r ((string_of_z (d2 exa.(int_of_string i) exa.(int_of_string j)) ^ "/1") :: acc)
          | t :: _ -> failwith ("request " ^ t) in
        print_endline (String.concat " " (go (words reqs) []))
      | [one] when (match words one with ["S"; _] -> true | _ -> false) ->
        (match words one with
         | ["S"; n] -> print_endline (String.concat " " (List.map (fun (a, b) -> string_of_z a ^ ":" ^ string_of_z b) (sections (zs n))))
         | _ -> print_endline "?")
      | _ -> print_endline "?"
    with Failure m -> print_endline ("ERR " ^ m) | Invalid_argument m -> print_endline ("ERR " ^ m))
  done with End_of_file -> ()
