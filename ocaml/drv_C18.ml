(* driver for the extracted C18 model and checkers: one case per input line, one result line per case.
   integers are arbitrary-precision decimals; a point list is  <n> x y x y ...
   DP <preserve> <t2n> <t2d> <pts>                      -> <tie> <n> x y ...        (model M: dp_simplify, dp_ties)
   LINE <t2n> <t2d> <pts in> <pts out>                  -> <all> sub=<b> ends=<b> near=<b>
   RING <t2n> <t2d> <pts in> <pts out>                  -> <all> sub=<b> cyc=<b> closed=<b> near=<b>
   NEARANY <t2n> <t2d> <pts in> <k> <pts out>*          -> <b> <pts: input vertices near none of the out polylines>
   SUBSET <pts out> <pts in>                            -> <b> <pts: out vertices that are not input vertices>
   GEOM <t2n> <t2d> <t2rn> <t2rd> <geom> <geom>         -> <b>      geom = <ncomp> ( L <pts> | P <nrings> <pts>* )*
   HULL <outer> <mpoly> <mpoly>                         -> <b>      mpoly = <npoly> ( <nrings> <pts>* )*
   COV <preserve> <t2n> <t2d> <cov> <cov>               -> <b>      cov = <nelem> <mpoly>*
   LOC <mpoly> <x> <y>                                  -> 0|1|2    AREA2 <mpoly> -> integer
   NODES <cov>                                          -> number of nodes (vertices of degree >= 3), boundary segments *)
let toks = ref []
let next () = match !toks with t :: r -> toks := r; t | [] -> failwith "eol"
let zt () = z_of_string (next ())
let it () = int_of_string (next ())
let rec rep n f = if n <= 0 then [] else let x = f () in x :: rep (n - 1) f
let pt () = let x = zt () in let y = zt () in (x, y)
let pts () = let n = it () in rep n pt
let rat () = let n = zt () in let d = zt () in (n, d)
let poly () = let n = it () in rep n pts
let mpoly () = let n = it () in rep n poly
let cov () = let n = it () in rep n mpoly
let comp () = match next () with
  | "L" -> CLine (pts ())
  | "P" -> CPoly (poly ())
  | s -> failwith ("bad comp " ^ s)
let geom () = let n = it () in rep n comp
let b2s b = if b then "1" else "0"
let show_pts l = String.concat " " (string_of_int (List.length l) :: List.map (fun (x, y) -> string_of_z x ^ " " ^ string_of_z y) l)
let rec removelast l = match l with [] -> [] | [_] -> [] | a :: r -> a :: removelast r
let hd0 l = match l with a :: _ -> a | [] -> (Z0, Z0)
let rec last0 l = match l with [] -> (Z0, Z0) | [a] -> a | _ :: r -> last0 r
let peq (a, b) (c, d) = a = c && b = d
let () =
  try while true do
    let line = input_line stdin in
    (try
      toks := words line;
      (match next () with
       | "DP" ->
         let preserve = it () <> 0 in
         let t2 = rat () in
         let p = pts () in
         let out = dp_simplify t2 p preserve in
         let tie = dp_ties t2 p preserve in
         print_endline (b2s tie ^ " " ^ show_pts out)
       | "LINE" ->
         let t2 = rat () in let inp = pts () in let out = pts () in
         Printf.printf "%s sub=%s ends=%s near=%s\n" (b2s (check_line t2 inp out)) (b2s (is_subseq out inp)) (b2s (ends_eq inp out)) (b2s (all_near t2 inp out))
       | "RING" ->
         let t2 = rat () in let inp = pts () in let out = pts () in
         Printf.printf "%s sub=%s cyc=%s closed=%s near=%s\n" (b2s (check_ring t2 inp out)) (b2s (verts_subset out inp))
           (b2s (is_subseq (removelast out) (removelast inp @ removelast inp))) (b2s (peq (hd0 out) (last0 out))) (b2s (all_near t2 inp out))
       | "NEARANY" ->
         let t2 = rat () in let inp = pts () in let k = it () in let outs = rep k pts in
         let bad = List.filter (fun v -> not (List.exists (fun o -> all_near t2 [v] o) outs)) inp in
         print_endline (b2s (bad = []) ^ " " ^ show_pts bad)
       | "SUBSET" ->
         let out = pts () in let inp = pts () in
         let bad = List.filter (fun v -> not (verts_subset [v] inp)) out in
         print_endline (b2s (bad = []) ^ " " ^ show_pts bad)
       | "GEOM" ->
         let t2 = rat () in let t2r = rat () in let gi = geom () in let go = geom () in
         print_endline (b2s (check_simpl_geom t2 t2r gi go))
       | "HULL" ->
         let outer = it () <> 0 in let mi = mpoly () in let mo = mpoly () in
         print_endline (b2s (check_hull outer mi mo))
       | "COV" ->
         let preserve = it () <> 0 in let t2 = rat () in let ci = cov () in let co = cov () in
         print_endline (b2s (check_cov preserve t2 ci co))
       | "LOC" ->
         let m = mpoly () in let p = pt () in print_endline (string_of_z (mpoly_loc m p))
       | "AREA2" ->
         let m = mpoly () in print_endline (string_of_z (mpoly_area2 m))
       | "NODES" ->
         let c = cov () in
         let all = cov_segs c in
         let vs = List.sort_uniq compare (List.concat_map (fun (a, b) -> [a; b]) all) in
         let nn = List.length (List.filter (fun v -> is_node all v) vs) in
         let nb = List.length (List.filter (fun s -> is_boundary_seg all s) all) in
         Printf.printf "%d %d\n" nn nb
       | s -> print_endline ("BAD " ^ s))
    with Failure m -> print_endline ("ERR " ^ m) | Not_found -> print_endline "ERR notfound");
    flush stdout
  done with End_of_file -> ()
