(* driver for the extracted C20 models: one case per input line, one canonical result line per case.
   geometry text (integer ordinates, decimal, any size):
     P 0 | P 1 x y | L n (x y)*n | R n (x y)*n | Y k (n (x y)*n)*k | M t n geom*n
   point list:  n (x y)*n
   ops:
     HULL <pts> | <pts>          input vertices | implementation hull cycle (no closing point) -> verdict ; model hull
     ENV <pts> | <pts>           input vertices | vertices of the envelope geometry -> 1/0 ; minx maxx miny maxy
     CENT p <g>                  -> kind nx ny den | none
     LOC x y <g>                 -> 0 interior / 1 boundary / 2 exterior of the areal components
     MBC <pts>                   -> cxn cyn cd rn rd support | none
     MBCCHK cx cy r sc einv <pts>-> 1/0
     MINW <pts> / MINR <pts>     -> num den | none
     NORM <g>                    -> rings_ok ; normalize g ; normalize (normalize g) ; normalize (reverse g) ; reverse g ; orient 1 ; orient 0
     EQ <g> | <g>                -> geom_eqb ; geom_eqb of the normal forms ; cmp
     MEAS p <g>                  -> area2 length_scaled ncoords dimension isempty
     UNIQ <g> / BND <g>          -> point list
     HIL level x y -> code       HILD level i -> x y *)
let zs = z_of_string
type tk = { t : string array; mutable i : int }
let next k = let s = k.t.(k.i) in k.i <- k.i + 1; s
let rd_pts k = let n = int_of_string (next k) in List.init n (fun _ -> let x = zs (next k) in let y = zs (next k) in (x, y))
let rec rd_geom k = match next k with
  | "P" -> let n = int_of_string (next k) in if n = 0 then GPoint [] else let x = zs (next k) in let y = zs (next k) in GPoint [(x, y)]
  | "L" -> GLine (rd_pts k)
  | "R" -> GRing (rd_pts k)
  | "Y" -> let n = int_of_string (next k) in if n = 0 then GPoly ([], []) else
           let rs = List.init n (fun _ -> rd_pts k) in GPoly (List.hd rs, List.tl rs)
  | "M" -> let t = int_of_string (next k) in let n = int_of_string (next k) in
           let es = List.init n (fun _ -> rd_geom k) in GColl (z_of_int t, es)
  | s -> failwith ("bad geometry token " ^ s)
let mk s = { t = Array.of_list (words s); i = 0 }
let sp p = string_of_z (fst p) ^ " " ^ string_of_z (snd p)
let show_pts l = String.concat " " (string_of_int (List.length l) :: List.map sp l)
let rec show_geom g = match g with
  | GPoint [] -> "P 0" | GPoint (p :: _) -> "P 1 " ^ sp p
  | GLine c -> "L " ^ show_pts c | GRing c -> "R " ^ show_pts c
  | GPoly ([], _) -> "Y 0"
  | GPoly (s, hs) -> "Y " ^ string_of_int (1 + List.length hs) ^ " " ^ String.concat " " (List.map show_pts (s :: hs))
  | GColl (t, es) -> String.concat " " (("M " ^ string_of_z t ^ " " ^ string_of_int (List.length es)) :: List.map show_geom es)
let b2s b = if b then "1" else "0"
let cmp2s c = match c with Eq -> "0" | Lt -> "-1" | Gt -> "1"
let two line = match String.split_on_char '|' line with [a; b] -> (a, b) | _ -> failwith "expected a | b"
let rest line = let line = String.trim line in match String.index_opt line ' ' with Some i -> String.sub line (i + 1) (String.length line - i - 1) | None -> ""
let handle line =
  let op = List.hd (words line) in let r = rest line in
  match op with
  | "HULL" -> let (a, b) = two r in let pts = rd_pts (mk a) and h = rd_pts (mk b) in
      string_of_z (hull_verdict pts h) ^ " ; " ^ show_pts (hull_mc pts)
  | "ENV" -> let (a, b) = two r in let pts = rd_pts (mk a) and o = rd_pts (mk b) in
      b2s (check_envelope pts o) ^ " ; " ^ (match envelope pts with None -> "none" | Some e -> String.concat " " (List.map string_of_z [e.minx; e.maxx; e.miny; e.maxy]))
  | "CENT" -> let k = mk r in let p = zs (next k) in let g = rd_geom k in
      (match centroid p g with None -> "none" | Some (((kd, nx), ny), d) -> String.concat " " (List.map string_of_z [kd; nx; ny; d]))
  | "LOC" -> let k = mk r in let x = zs (next k) in let y = zs (next k) in let g = rd_geom k in string_of_z (locate_area (x, y) g)
  | "MBC" -> let pts = rd_pts (mk r) in
      (match mbc_of pts with None -> "none" | Some c -> String.concat " " (List.map string_of_z [c.cxn; c.cyn; c.cd; c.rn; c.rd; support_count c pts]))
  | "MBCCHK" -> let k = mk r in let cx = zs (next k) in let cy = zs (next k) in let rr = zs (next k) in let sc = zs (next k) in let e = zs (next k) in
      let pts = rd_pts k in b2s (mbc_check pts cx cy rr sc e)
  | "MINW" -> (match min_width2_of (rd_pts (mk r)) with None -> "none" | Some (a, b) -> string_of_z a ^ " " ^ string_of_z b)
  | "MINR" -> (match min_rect_area_of (rd_pts (mk r)) with None -> "none" | Some (a, b) -> string_of_z a ^ " " ^ string_of_z b)
  | "NORM" -> let g = rd_geom (mk r) in let n = normalize g in
      String.concat " ; " [b2s (rings_ok g) ^ b2s (min_repeated g) ^ b2s (ccw_indeterminate g); show_geom n; show_geom (normalize n); show_geom (normalize (reverse g)); show_geom (reverse g);
                           show_geom (orient_polygons true g); show_geom (orient_polygons false g)]
  | "EQ" -> let (a, b) = two r in let ga = rd_geom (mk a) and gb = rd_geom (mk b) in
      String.concat " ; " [b2s (geom_eqb ga gb); b2s (geom_eqb (normalize ga) (normalize gb)); cmp2s (cmp_geom ga gb)]
  | "MEAS" -> let k = mk r in let p = zs (next k) in let g = rd_geom k in
      String.concat " " [string_of_z (area2 g); string_of_z (length_scaled p g); string_of_z (num_coords g); string_of_z (dimension g); b2s (is_empty g)]
  | "UNIQ" -> show_pts (unique_points (rd_geom (mk r)))
  | "BND" -> show_pts (boundary_mod2 (rd_geom (mk r)))
  | "HIL" -> let k = mk r in let l = zs (next k) in let x = zs (next k) in let y = zs (next k) in string_of_z (c_encode_3 l x y)
  | "HILD" -> let k = mk r in let l = zs (next k) in let i = zs (next k) in let (x, y) = c_decode_2 l i in string_of_z x ^ " " ^ string_of_z y
  | _ -> "?"
let () =
  try while true do
    let line = input_line stdin in
    (try print_endline (handle line) with e -> print_endline ("DRIVER-ERROR " ^ Printexc.to_string e));
    flush stdout
  done with End_of_file -> ()
