(* driver for the extracted C04 models: one query per input line, one result line per query.
   bit patterns of doubles: x<16 hex digits>.  geometry text as in drv_C03.ml (integers).
     MP <scale> <v>*            -> x<bits of PrecisionModel(scale).makePrecise(v)>*   (generated unit; "!" appended if the hand model differs)
     PM <scale>                 -> <scale'> <gridSize>      members after setScale
     GRID <g>                   -> <scale = 1.0/|g|> <reported = 1.0/scale'>
     HP cx cy p0x p0y p1x p1y   -> <generated><hand model><exact class>   three 0/1 digits (integer scaled coordinates)
     HPH hx hy p0x p0y p1x p1y  -> the same with every ordinate in half units
     HPP hx hy x y              -> <generated intersects(p)><half-open square>   (half units)
     PCHK <V|N> <op> <tn> <td> <en> <ed> <A> <B> <R> (N: validity not required) -> "1" | "0 valid=<b> sides=<..> verts=<..>"
     NEAR <tn> <td> <geom> <k> (x y w)*k        -> k digits: within tol of the point set of geom
     VAL <geom>                 -> "1" | "0 <rule code>"  *)
let zs = z_of_string
exception Parse of string
let z_of_hex s =
  (* x + 16 hex digits -> Z (non-negative) *)
  let acc = ref Z0 in
  String.iteri (fun i c -> if i > 0 then begin
    let d = if c >= '0' && c <= '9' then Char.code c - 48 else if c >= 'a' && c <= 'f' then Char.code c - 87 else raise (Parse "hex") in
    acc := Z.add (Z.mul !acc (z_of_int 16)) (z_of_int d) end) s;
  !acc
let hex_of_z z =
  let rec go z k acc = if k = 0 then acc else
    let q = Z.div z (z_of_int 16) in let r = int_of_z (Z.sub z (Z.mul q (z_of_int 16))) in
    go q (k - 1) (String.make 1 "0123456789abcdef".[r] ^ acc) in
  "x" ^ go z 16 ""
let rec take_pts n toks = if n = 0 then ([], toks) else
  match toks with x :: y :: r -> let (l, r') = take_pts (n - 1) r in ((zs x, zs y) :: l, r') | _ -> raise (Parse "pts")
let take_seq toks = match toks with n :: r -> take_pts (int_of_string n) r | _ -> raise (Parse "seq")
let rec take_many f n toks = if n = 0 then ([], toks) else
  let (a, r) = f toks in let (l, r') = take_many f (n - 1) r in (a :: l, r')
let take_poly toks = match toks with
  | k :: r -> let (rings, r') = take_many take_seq (int_of_string k) r in
    (match rings with [] -> (([], []), r') | s :: hs -> ((s, hs), r'))
  | _ -> raise (Parse "poly")
let take_optpt toks = match toks with
  | "E" :: r -> (None, r)
  | x :: y :: r -> (Some (zs x, zs y), r)
  | _ -> raise (Parse "optpt")
let rec take_geom toks = match toks with
  | "PT" :: r -> let (p, r') = take_optpt r in (GPoint p, r')
  | "LS" :: r -> let (l, r') = take_seq r in (GLine l, r')
  | "LR" :: r -> let (l, r') = take_seq r in (GRing l, r')
  | "PG" :: r -> let ((s, hs), r') = take_poly r in (GPoly (s, hs), r')
  | "MPT" :: m :: r -> let (l, r') = take_many take_optpt (int_of_string m) r in (GMPoint l, r')
  | "MLS" :: m :: r -> let (l, r') = take_many take_seq (int_of_string m) r in (GMLine l, r')
  | "MPG" :: m :: r -> let (l, r') = take_many take_poly (int_of_string m) r in (GMPoly l, r')
  | "GC" :: m :: r -> let (l, r') = take_many take_geom (int_of_string m) r in (GColl l, r')
  | t :: _ -> raise (Parse ("geom " ^ t))
  | [] -> raise (Parse "geom: end of input")
let show_h ((x, y), w) = string_of_z x ^ "/" ^ string_of_z y ^ "/" ^ string_of_z w
let show_p (x, y) = string_of_z x ^ "," ^ string_of_z y
let b2s b = if b then "1" else "0"
let cap n l = let rec go k l = match l with [] -> [] | a :: t -> if k = 0 then [] else a :: go (k - 1) t in go n l
let get_op s = match op_of_code (zs s) with Some o -> o | None -> raise (Parse "op code")
let () =
  try while true do
    let line = input_line stdin in
    (try match words line with
    | "MP" :: sc :: vs ->
      let s = z_of_hex sc in
      print_endline (String.concat " " (List.map (fun v -> let b = z_of_hex v in
        let g = mp_bits s b and h = mp_bits_hand s b in hex_of_z g ^ (if g = h then "" else "!")) vs))
    | ["PM"; sc] -> let (a, b) = pm_bits (z_of_hex sc) in print_endline (hex_of_z a ^ " " ^ hex_of_z b)
    | ["GRID"; g] -> print_endline (hex_of_z (grid_scale_bits (z_of_hex g)) ^ " " ^ hex_of_z (reported_grid_bits (z_of_hex g)))
    | ["HP"; cx; cy; a; b; c; d] ->
      let ((g, h), f) = hp_run (zs cx) (zs cy) (zs a) (zs b) (zs c) (zs d) in print_endline (b2s g ^ b2s h ^ b2s f)
    | ["HPH"; cx; cy; a; b; c; d] ->
      let ((g, h), f) = hp_run_half (zs cx) (zs cy) (zs a) (zs b) (zs c) (zs d) in print_endline (b2s g ^ b2s h ^ b2s f)
    | ["HPP"; hx; hy; x; y] -> let (g, f) = hp_pt (zs hx) (zs hy) (zs x) (zs y) in print_endline (b2s g ^ b2s f)
    | "PCHK" :: mode :: op :: tn :: td :: en :: ed :: toks ->
      let o = get_op op in
      let p = { p_tn = zs tn; p_td = zs td; p_en = zs en; p_ed = zs ed } in
      let (a, r1) = take_geom toks in let (b, r2) = take_geom r1 in let (r, _) = take_geom r2 in
      if (if mode = "N" then prec_check_nv p o a b r else prec_check p o a b r) then print_endline "1" else
        let ((v, sides), verts) = prec_verdict p o a b r in
        print_endline (Printf.sprintf "0 valid=%s sides=%s verts=%s" (b2s v) (String.concat ";" (List.map show_h (cap 4 sides)))
                         (String.concat ";" (List.map show_p (cap 4 verts))))
    | "NEAR" :: tn :: td :: toks ->
      let (g, r) = take_geom toks in
      (match r with
       | k :: pts ->
         let rec go n l = if n = 0 then [] else match l with
           | x :: y :: w :: t -> b2s (near_geom (zs tn) (zs td) g ((zs x, zs y), zs w)) :: go (n - 1) t | _ -> raise (Parse "hpts") in
         print_endline (String.concat "" (go (int_of_string k) pts))
       | [] -> raise (Parse "NEAR"))
    | "VAL" :: toks ->
      let (g, _) = take_geom toks in
      (match valid_detail false g with None -> print_endline "1" | Some (r, _) -> print_endline ("0 " ^ string_of_z (rule_code r)))
    | _ -> print_endline "?"
    with Parse s -> print_endline ("PARSE-ERROR " ^ s) | Failure s -> print_endline ("ERROR " ^ s) | Invalid_argument s -> print_endline ("ERROR " ^ s)
       | Stack_overflow -> print_endline "ERROR stack overflow" | Not_found -> print_endline "ERROR not found");
    flush stdout
  done with End_of_file -> ()
