(* driver for the extracted C05 model (Lib/ValidDefs, Lib/LocateDefs): one query per input line, one result line per query.
   geometry text (length-prefixed tokens, integer grid coordinates):
     PT E | PT x y | LS n x y.. | LR n x y.. | PG k (n x y..)*k | MPT m (E | x y)*m | MLS m (n x y..)*m
     | MPG m (k (n x y..)*k)*m | GC m geom*m
   queries:
     V <geom>                 -> "<valid0> <valid1> <simple> <isring> # <sets flag0> # <sets flag1> # <nonsimple points>"
                                 sets: space separated  code=x/y/w,x/y/w,...   (only non-empty sets), points x/y/w
     LOC <n> (x y w)*n <geom> -> n letters I/B/E (location of each homogeneous point w.r.t. the geometry, mod-2 rule)  *)
let zs = z_of_string
exception Parse of string
let rec take_pts n toks = if n = 0 then ([], toks) else
  match toks with x :: y :: r -> let (l, r') = take_pts (n - 1) r in ((zs x, zs y) :: l, r') | _ -> raise (Parse "pts")
let take_seq toks = match toks with n :: r -> take_pts (int_of_string n) r | _ -> raise (Parse "seq")
let rec take_many f n toks = if n = 0 then ([], toks) else
  let (a, r) = f toks in let (l, r') = take_many f (n - 1) r in (a :: l, r')
let take_poly toks = match toks with
  | k :: r -> let (rings, r') = take_many take_seq (int_of_string k) r in
    (match rings with [] -> (([], []), r') | s :: hs -> ((s, hs), r'))
  | _ -> raise (Parse "poly")
let take_optpt toks = match toks with
  | "E" :: r -> (None, r)
  | x :: y :: r -> (Some (zs x, zs y), r)
  | _ -> raise (Parse "optpt")
let rec take_geom toks = match toks with
  | "PT" :: r -> let (p, r') = take_optpt r in (GPoint p, r')
  | "LS" :: r -> let (l, r') = take_seq r in (GLine l, r')
  | "LR" :: r -> let (l, r') = take_seq r in (GRing l, r')
  | "PG" :: r -> let ((s, hs), r') = take_poly r in (GPoly (s, hs), r')
  | "MPT" :: m :: r -> let (l, r') = take_many take_optpt (int_of_string m) r in (GMPoint l, r')
  | "MLS" :: m :: r -> let (l, r') = take_many take_seq (int_of_string m) r in (GMLine l, r')
  | "MPG" :: m :: r -> let (l, r') = take_many take_poly (int_of_string m) r in (GMPoly l, r')
  | "GC" :: m :: r -> let (l, r') = take_many take_geom (int_of_string m) r in (GColl l, r')
  | t :: _ -> raise (Parse ("geom " ^ t))
  | [] -> raise (Parse "geom: end of input")
let show_h ((x, y), w) = string_of_z x ^ "/" ^ string_of_z y ^ "/" ^ string_of_z w
let show_sets vs =
  String.concat " " (List.filter_map (fun (r, s) -> match s with [] -> None
    | _ -> Some (string_of_int (int_of_z (rule_code r)) ^ "=" ^ String.concat "," (List.map show_h s))) vs)
let b2s b = if b then "1" else "0"
let () =
  try while true do
    let line = input_line stdin in
    (try match words line with
    | "V" :: toks ->
      let (g, _) = take_geom toks in
      let v0 = violations false g and v1 = violations true g in
      let ok vs = List.for_all (fun (_, s) -> s = []) vs in
      print_endline (String.concat " " [b2s (ok v0); b2s (ok v1); b2s (simple_geom g); b2s (is_ring g); "#"; show_sets v0; "#"; show_sets v1;
                                        "#"; String.concat "," (List.map show_h (nonsimple_pts g))])
    | "LOC" :: n :: toks ->
      let rec pts k toks = if k = 0 then ([], toks) else
        match toks with x :: y :: w :: r -> let (l, r') = pts (k - 1) r in (((zs x, zs y), zs w) :: l, r') | _ -> raise (Parse "hpts") in
      let (qs, r) = pts (int_of_string n) toks in
      let (g, _) = take_geom r in
      print_endline (String.concat "" (List.map (fun q -> match loc_h g q with Interior -> "I" | Boundary -> "B" | Exterior -> "E") qs))
    | _ -> print_endline "?"
    with Parse s -> print_endline ("PARSE-ERROR " ^ s) | Failure s -> print_endline ("ERROR " ^ s));
    flush stdout
  done with End_of_file -> ()
