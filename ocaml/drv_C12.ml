(* driver for the extracted C12 generator.  input line:  <seed> <nlit> <len>   output line: the program for harness/c12.cpp
     call ; call ; ... # <handle>:<kind>:<flag>:<owner> ...
   call = name shape res class cons errval? args > result ! dying handles      (errval is filled in by props/C12.py from the API table) *)
let str (cs : char list) = String.of_seq (List.to_seq cs)
let kind_letter k = match k with KG -> 'G' | KP -> 'P' | KT -> 'T' | KS -> 'S' | KB -> 'B'
let arg_letter a = match a with
  | AC KG -> 'G' | AM KG -> 'g' | AX KG -> 'X' | AD KG -> 'D' | AI -> 'I'
  | AC KP -> 'P' | AD KP -> 'p' | AM KP -> 'P' | AX KP -> 'p'
  | AC KT -> 't' | AM KT -> 't' | AD KT -> 'T' | AX KT -> 'T'
  | AC KS -> 'S' | AM KS -> 's' | AX KS -> 'Y' | AD KS -> 'Z'
  | AC KB -> 'B' | AM KB -> 'b' | AD KB -> 'V' | AX KB -> 'V'
  | AN c -> Char.chr (48 + int_of_nat c)
let res_letter r = match r with
  | RNone -> '-' | RV -> 'v' | RF (k, _) -> kind_letter k | RB (KG, _) -> 'g' | RB (_, _) -> 's'
let class_letter c = match c with RCpred -> 'p' | RCstatus -> 's' | RCcount -> 'c' | RCptr -> 'P' | RCdist -> 'd' | RCvoid -> 'v' | RCother -> 'o'
let ops_arr = Array.of_list ops
let is_obj a = match a with AN _ -> false | _ -> true
let show_call (p : pool) (c : call) : string * pool =
  let o = ops_arr.(int_of_nat c.cop) in
  let shape = String.of_seq (List.to_seq (List.map arg_letter o.op_args)) in
  let hs = ref (List.map int_of_nat c.cargs) and ns = ref (List.map int_of_nat c.cnums) in
  let args = List.map (fun a ->
      if is_obj a then (match !hs with h :: t -> hs := t; Printf.sprintf "h%d" h | [] -> "h?")
      else (match !ns with n :: t -> ns := t; Printf.sprintf "n%d" n | [] -> "n0")) o.op_args in
  let p' = apply ops p c in
  let n0 = List.length p and n1 = List.length p' in
  let resh = if n1 > n0 then Printf.sprintf "h%d" n0 else "-" in
  (* handles whose liveness changed *)
  let dying = List.filter (fun h -> live p (nat_of_int h) && not (live p' (nat_of_int h))) (List.init n0 (fun i -> i)) in
  let s = Printf.sprintf "%s %s %c %c %d @ %s > %s%s" (str o.op_name) (if shape = "" then "." else shape) (res_letter o.op_res) (class_letter o.op_class)
      (if o.op_constructive then 1 else 0) (String.concat " " args) resh
      (if dying = [] then "" else " ! " ^ String.concat " " (List.map (Printf.sprintf "h%d") dying)) in
  (s, p')
let () =
  if Array.length Sys.argv > 1 && Sys.argv.(1) = "ops" then
    Array.iteri (fun i o -> Printf.printf "%d %s %s %c %c\n" i (str o.op_name)
                    (String.of_seq (List.to_seq (List.map arg_letter o.op_args))) (res_letter o.op_res) (class_letter o.op_class)) ops_arr
  else
  try while true do
    let line = input_line stdin in
    match words line with
    | [seed; nlit; len] ->
      let prog = program ops (z_of_string seed) (nat_of_int (int_of_string nlit)) (nat_of_int (int_of_string len)) in
      let buf = Buffer.create 4096 in
      let p = ref [] in
      let legal_all = ref true in
      List.iteri (fun i c ->
          if not (legal ops !p c) then legal_all := false;
          let (s, p') = show_call !p c in
          if i > 0 then Buffer.add_string buf " ; ";
          Buffer.add_string buf s; p := p') prog;
      Buffer.add_string buf " #";
      List.iteri (fun h o -> Buffer.add_string buf (Printf.sprintf " %d:%c:%d:%d" h (kind_letter o.okind)
                                                     (if live !p (nat_of_int h) || (o.olive && o.oown = None) then (if o.olive then 1 else 0) else 0)
                                                     (match o.oown with Some q -> int_of_nat q | None -> -1))) !p;
      if not !legal_all then print_string "ILLEGAL ";
      print_string (Buffer.contents buf); print_newline ()
    | _ -> print_endline "?"
  done with End_of_file -> ()
