#include <stdio.h>
#include <stdlib.h>
#include <string.h>
#include <stdarg.h>
#include <geos_c.h>
static void msg(const char*f,...){va_list a;va_start(a,f);vfprintf(stderr,f,a);va_end(a);fputc('\n',stderr);}
int main(int argc,char**argv){
  int depth=atoi(argv[1]); int mode=atoi(argv[2]);
  GEOSContextHandle_t h=GEOS_init_r(); GEOSContext_setErrorHandler_r(h,msg);
  if(mode==0){ // WKB nested GC
    size_t n=(size_t)depth*9+9; unsigned char*b=malloc(n); size_t o=0;
    for(int i=0;i<depth;i++){ b[o++]=1; b[o++]=7;b[o++]=0;b[o++]=0;b[o++]=0; b[o++]=1;b[o++]=0;b[o++]=0;b[o++]=0;}
    b[o++]=1; b[o++]=7;b[o++]=0;b[o++]=0;b[o++]=0; b[o++]=0;b[o++]=0;b[o++]=0;b[o++]=0;
    GEOSGeometry*g=GEOSGeomFromWKB_buf_r(h,b,o); printf("wkb depth=%d -> %p\n",depth,(void*)g); if(g)GEOSGeom_destroy_r(h,g);
  } else if(mode==1){
    size_t n=(size_t)depth*20+32; char*s=malloc(n); s[0]=0; char*p=s;
    for(int i=0;i<depth;i++){ memcpy(p,"GEOMETRYCOLLECTION(",19); p+=19;}
    memcpy(p,"POINT(1 1)",10); p+=10; for(int i=0;i<depth;i++)*p++=')'; *p=0;
    GEOSGeometry*g=GEOSGeomFromWKT_r(h,s); printf("wkt depth=%d -> %p\n",depth,(void*)g); if(g)GEOSGeom_destroy_r(h,g);
  } else {
    size_t n=(size_t)depth*60+64; char*s=malloc(n); char*p=s;
    for(int i=0;i<depth;i++){ p+=sprintf(p,"{\"type\":\"GeometryCollection\",\"geometries\":[");}
    p+=sprintf(p,"{\"type\":\"Point\",\"coordinates\":[1,1]}"); for(int i=0;i<depth;i++){*p++=']';*p++='}';} *p=0;
    GEOSGeoJSONReader*r=GEOSGeoJSONReader_create_r(h); GEOSGeometry*g=GEOSGeoJSONReader_readGeometry_r(h,r,s); printf("json depth=%d len=%zu -> %p\n",depth,strlen(s),(void*)g); if(g)GEOSGeom_destroy_r(h,g);
  }
  GEOS_finish_r(h);return 0;}
