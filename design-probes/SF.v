From Coq Require Import ZArith List Floats.SpecFloat.
Import ListNotations.
Open Scope Z_scope.
Definition prec := 53. Definition emax := 1024.
Definition add := SFadd prec emax. Definition sub := SFsub prec emax. Definition mul := SFmul prec emax. Definition div := SFdiv prec emax.
Definition ofZ (z:Z) : spec_float :=
  match z with Z0 => S754_zero false | Zpos p => binary_normalize prec emax (Zpos p) 0 false | Zneg p => binary_normalize prec emax (Zneg p) 0 true end.
Definition filt (pax pay pbx pby pcx pcy : spec_float) :=
  let detleft := mul (sub pax pcx) (sub pby pcy) in
  let detright := mul (sub pay pcy) (sub pbx pcx) in
  let det := sub detleft detright in det.
Eval vm_compute in filt (ofZ 0) (ofZ 0) (ofZ 33554432) (ofZ 33554431) (ofZ 67108864) (ofZ 67108861).
Definition many := map (fun i => filt (ofZ i) (ofZ 0) (ofZ 33554432) (ofZ 33554431) (ofZ 67108864) (ofZ (67108861+i))) (map Z.of_nat (seq 0 20000)).
Time Eval vm_compute in length (filter (fun x => match x with S754_finite _ _ _ => true | _ => false end) many).
Require Extraction. Require Import ExtrOcamlBasic.
Extraction "sf.ml" filt ofZ many.
