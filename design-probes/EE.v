From Coq Require Import ZArith Bool Lia.
Local Open Scope Z_scope.
(* dims: F=-1, P=0, L=1, A=2 *)
Record im := { ii:Z; ib:Z; ie:Z; bi:Z; bb:Z; be:Z; ei:Z; eb:Z; ee:Z }.
Definition T x := 0 <=? x.
Definition F x := x =? -1.
Definition le_im (p m: im) := ii p <= ii m /\ ib p <= ib m /\ ie p <= ie m /\ bi p <= bi m /\ bb p <= bb m /\ be p <= be m /\ ei p <= ei m /\ eb p <= eb m /\ ee p <= ee m.
Definition dom (m: im) := -1 <= ii m <= 2 /\ -1 <= ib m <= 2 /\ -1 <= ie m <= 2 /\ -1 <= bi m <= 2 /\ -1 <= bb m <= 2 /\ -1 <= be m <= 2 /\ -1 <= ei m <= 2 /\ -1 <= eb m <= 2 /\ -1 <= ee m <= 2.

(* from IntersectionMatrix.cpp *)
Definition isContains m := T (ii m) && F (ei m) && F (eb m).
Definition isWithin m := T (ii m) && F (ie m) && F (be m).
Definition isCovers m := (T (ii m) || T (ib m) || T (bi m) || T (bb m)) && F (ei m) && F (eb m).
Definition isEquals (dA dB:Z) m := (dA =? dB) && T (ii m) && F (ei m) && F (ie m) && F (eb m) && F (be m).
Definition isTouches (dA dB:Z) m :=
  let '(a,b) := if dA >? dB then (dB,dA) else (dA,dB) in
  if ((a =? 2) && (b =? 2)) || ((a =? 1) && (b =? 1)) || ((a =? 1) && (b =? 2)) || ((a =? 0) && (b =? 2)) || ((a =? 0) && (b =? 1))
  then F (ii m) && (T (ib m) || T (bi m) || T (bb m)) else false.
Definition isCrosses (dA dB:Z) m :=
  if ((dA =? 0) && (dB =? 1)) || ((dA =? 0) && (dB =? 2)) || ((dA =? 1) && (dB =? 2)) then T (ii m) && T (ie m)
  else if ((dA =? 1) && (dB =? 0)) || ((dA =? 2) && (dB =? 0)) || ((dA =? 2) && (dB =? 1)) then T (ii m) && T (ei m)
  else if (dA =? 1) && (dB =? 1) then ii m =? 0 else false.
Definition isOverlaps (dA dB:Z) m :=
  if ((dA =? 0) && (dB =? 0)) || ((dA =? 2) && (dB =? 2)) then T (ii m) && T (ie m) && T (ei m)
  else if (dA =? 1) && (dB =? 1) then (ii m =? 1) && T (ie m) && T (ei m) else false.

(* from RelatePredicate.h : isDetermined *)
Definition extOfA m := T (ei m) || T (eb m).
Definition extOfB m := T (ie m) || T (be m).
Definition det_contains (m: im) := extOfA m.
Definition det_within (m: im) := extOfB m.
Definition det_equals (m: im) := T (ie m) || T (be m) || T (ei m) || T (eb m).
Definition det_touches (m: im) := T (ii m).
Definition det_crosses (dA dB:Z) m :=
  if (dA =? 1) && (dB =? 1) then 0 <? ii m
  else if dA <? dB then T (ii m) && T (ie m)
  else if dA >? dB then T (ii m) && T (ei m) else false.
Definition det_overlaps (dA dB:Z) m :=
  (if (dA =? 2) || (dA =? 0) then T (ii m) && T (ie m) && T (ei m) else false) ||
  (if (dA =? 1) then (ii m =? 1) && T (ie m) && T (ei m) else false).


Ltac b2p := repeat first
  [ rewrite andb_true_iff in * | rewrite orb_true_iff in * | rewrite Z.leb_le in * | rewrite Z.eqb_eq in *
  | rewrite Z.ltb_lt in * | rewrite Z.gtb_lt in * ].
Ltac solve_eq := apply eq_true_iff_eq; unfold T, F in *; b2p; unfold le_im in *; lia.

Lemma contains_stable p m : le_im p m -> det_contains p = true -> isContains p = isContains m.
Proof. unfold det_contains, extOfA, isContains. intros. solve_eq. Qed.
Lemma within_stable p m : le_im p m -> det_within p = true -> isWithin p = isWithin m.
Proof. unfold det_within, extOfB, isWithin. intros. solve_eq. Qed.
Lemma covers_stable p m : le_im p m -> det_contains p = true -> isCovers p = isCovers m.
Proof. unfold det_contains, extOfA, isCovers. intros. solve_eq. Qed.
Lemma equals_stable dA dB p m : le_im p m -> det_equals p = true -> isEquals dA dB p = isEquals dA dB m.
Proof. unfold det_equals, isEquals. intros. solve_eq. Qed.
Lemma touches_stable dA dB p m : le_im p m -> det_touches p = true -> isTouches dA dB p = isTouches dA dB m.
Proof. unfold det_touches, isTouches. intros.
  destruct (if dA >? dB then (dB, dA) else (dA, dB)) as [a b].
  match goal with |- (if ?c then _ else _) = _ => destruct c end; [|reflexivity]. solve_eq. Qed.
(* crosses / overlaps need admissibility: for L/L the II entry never exceeds 1; dims in {0,1,2} *)
Definition dimok d := d = 0 \/ d = 1 \/ d = 2.
Lemma crosses_stable dA dB p m : dimok dA -> dimok dB -> le_im p m -> dom p ->
  (dA = 1 -> dB = 1 -> ii m <= 1) ->
  det_crosses dA dB p = true -> isCrosses dA dB p = isCrosses dA dB m.
Proof. unfold dimok, det_crosses, isCrosses, dom. intros HA HB Hle Hd Hll Hdet.
  destruct HA as [HA|[HA|HA]]; destruct HB as [HB|[HB|HB]]; subst; simpl in *; try discriminate; try solve_eq. Qed.
Lemma overlaps_stable dA dB p m : dimok dA -> dimok dB -> le_im p m -> dom p ->
  (dA = 1 -> dB = 1 -> ii m <= 1) -> dA = dB ->
  det_overlaps dA dB p = true -> isOverlaps dA dB p = isOverlaps dA dB m.
Proof. unfold dimok, det_overlaps, isOverlaps, dom. intros HA HB Hle Hd Hll Heq Hdet. subst dB.
  destruct HA as [HA|[HA|HA]]; subst; simpl in *; try discriminate; try solve_eq. Qed.
(* without the dA = dB guard (Overlaps.init requires it) the shortcut is unsound: *)
Print Assumptions crosses_stable.
