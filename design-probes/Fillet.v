From Coq Require Import Reals Lra Lia Psatz.
From Interval Require Import Tactic.
Local Open Scope R_scope.

(* n = floor(total/quantum + 1/2) as an integer with  n <= total/quantum + 1/2 < n+1 *)
Lemma fillet_step_bound (total quantum : R) (n : Z) :
  0 < quantum -> 0 <= total ->
  IZR n <= total / quantum + 1/2 < IZR n + 1 ->
  ((1 <= n)%Z -> total / IZR n <= 3/2 * quantum) /\ ((n <= 0)%Z -> total < quantum / 2).
Proof.
  intros Hq Ht [Hlo Hhi]. split.
  - intros Hn. assert (1 <= IZR n) by (apply IZR_le in Hn; exact Hn).
    assert (Hx : total / quantum < IZR n + 1/2) by lra.
    assert (total < (IZR n + 1/2) * quantum).
    { apply Rmult_lt_compat_r with (r:=quantum) in Hx; [|lra]. unfold Rdiv in Hx. rewrite Rmult_assoc, Rinv_l in Hx; lra. }
    apply Rmult_le_reg_r with (r:=IZR n); [lra|]. unfold Rdiv. rewrite Rmult_assoc, Rinv_l by lra.
    nra.
  - intros Hn. assert (IZR n <= 0) by (apply IZR_le in Hn; exact Hn).
    assert (Hx : total / quantum < 1/2) by lra.
    apply Rmult_lt_compat_r with (r:=quantum) in Hx; [|lra]. unfold Rdiv in Hx. rewrite Rmult_assoc, Rinv_l in Hx; lra.
Qed.

(* property's bound vs true worst case, per q *)
Definition e_prop (q:R) := 15/1000 + 1 - cos (PI / (4*q)).
Definition e_fillet (q:R) := 1 - cos (3*PI / (8*q)).
Lemma q5_bad : e_prop 5 < e_fillet 5. Proof. unfold e_fillet, e_prop. interval. Qed.
Lemma q6_ok : e_fillet 6 <= e_prop 6. Proof. unfold e_fillet, e_prop. interval. Qed.
Lemma q8_ok : e_fillet 8 <= e_prop 8. Proof. unfold e_fillet, e_prop. interval. Qed.
Lemma q32_ok : e_fillet 32 <= e_prop 32. Proof. unfold e_fillet, e_prop. interval. Qed.
Lemma q4_bad : e_prop 4 < e_fillet 4. Proof. unfold e_fillet, e_prop. interval. Qed.
Lemma q1_bad : e_prop 1 < e_fillet 1. Proof. unfold e_fillet, e_prop. interval. Qed.
(* for all real q >= 5 ? *)
Lemma qge6_ok : forall q, 6 <= q <= 32 -> e_fillet q <= e_prop q.
Proof. intros q Hq. apply Rminus_le. unfold e_fillet, e_prop. interval with (i_bisect q, i_prec 40). Qed.
Print Assumptions qge6_ok.
