From Coq Require Import ZArith Lia Psatz Bool.
Local Open Scope Z_scope.
Definition pt := (Z*Z)%type.
Definition det (a b c: pt) : Z := (fst b - fst a)*(snd c - snd a) - (snd b - snd a)*(fst c - fst a).
(* homogeneous rational point (x,y,w): represents (x/w, y/w) *)
Record qpt := { qx:Z; qy:Z; qw:Z }.
Definition qdet (a b: pt) (p: qpt) : Z := (fst b - fst a)*(qy p - qw p*snd a) - (snd b - snd a)*(qx p - qw p*fst a).
(* parametric membership: p = a + (n/d)(b-a) with w = d *)
Definition qon (p: qpt) (a b: pt) : Prop :=
  exists n, 0 < qw p /\ 0 <= n <= qw p /\ qx p = (qw p - n)*fst a + n*fst b /\ qy p = (qw p - n)*snd a + n*snd b.
Lemma qdet_lin p1 p2 q1 q2 p n : qx p = (qw p - n)*fst q1 + n*fst q2 -> qy p = (qw p - n)*snd q1 + n*snd q2 ->
  qdet p1 p2 p = (qw p - n)*det p1 p2 q1 + n*det p1 p2 q2.
Proof. intros Hx Hy. unfold qdet, det. rewrite Hx, Hy. ring. Qed.
Lemma qon_line p a b : qon p a b -> qdet a b p = 0.
Proof. intros (n & Hw & Hn & Hx & Hy). unfold qdet. rewrite Hx, Hy. ring. Qed.
Lemma same_side_disjoint p1 p2 q1 q2 p :
  0 < det p1 p2 q1 -> 0 < det p1 p2 q2 -> qon p q1 q2 -> qon p p1 p2 -> False.
Proof.
  intros H1 H2 (n & Hw & Hn & Hx & Hy) Hp.
  pose proof (qon_line _ _ _ Hp) as H0.
  rewrite (qdet_lin _ _ _ _ _ _ Hx Hy) in H0.
  assert (0 <= (qw p - n) * det p1 p2 q1) by nia.
  assert (0 <= n * det p1 p2 q2) by nia.
  assert (qw p - n = 0 \/ 0 < qw p - n) as [E|E] by lia.
  - assert (n = qw p) by lia. subst n. nia.
  - nia.
Qed.
