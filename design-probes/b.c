#include <stdio.h>
#include <math.h>
#include <stdarg.h>
#include <geos_c.h>
static void msg(const char*f,...){va_list a;va_start(a,f);vfprintf(stderr,f,a);va_end(a);fputc('\n',stderr);}
int main(){
  GEOSContextHandle_t h=GEOS_init_r(); GEOSContext_setErrorHandler_r(h,msg);
  for(int q=1;q<=8;q++){
    double quantum=M_PI/2/q; double turn=1.49*quantum; // exterior angle to fill
    // line from (-10,0)->(0,0)->(10cos(turn'),...) ; left turn by 'turn' makes round join on right side of angle 'turn'
    char wkt[256]; snprintf(wkt,256,"LINESTRING(-10 0, 0 0, %.17g %.17g)",10*cos(turn),10*sin(turn));
    GEOSWKTReader*r=GEOSWKTReader_create_r(h); GEOSGeometry*g=GEOSWKTReader_read_r(h,r,wkt);
    double d=1.0; GEOSGeometry*b=GEOSBuffer_r(h,g,d,q);
    // test point at the bisector direction on the outer (right) side: direction angle = turn/2 - pi/2
    double e=0.015+1-cos(M_PI/(4*q)); double ang=turn/2-M_PI/2; double rr=(1-e)*d*0.999;
    GEOSGeometry*p=GEOSGeom_createPointFromXY_r(h,rr*cos(ang),rr*sin(ang));
    printf("q=%d e=%.4f pointdist=%.4f inside=%d  distToLine=%.4f\n",q,e,rr,GEOSContains_r(h,b,p),({double x;GEOSDistance_r(h,g,p,&x);x;}));
  }
  GEOS_finish_r(h);return 0;}
