#include <stdio.h>
#include <stdlib.h>
#include <string.h>
#include <stdarg.h>
#include <geos_c.h>
static void msg(const char*f,...){va_list a;va_start(a,f);fprintf(stderr,"  ERR: ");vfprintf(stderr,f,a);va_end(a);fputc('\n',stderr);}
int main(int argc,char**argv){ int c=atoi(argv[1]); GEOSContextHandle_t h=GEOS_init_r(); GEOSContext_setErrorHandler_r(h,msg);
  GEOSGeometry*g=GEOSGeomFromWKT_r(h,argv[2]); GEOSGeometry*r=NULL;
  if(c==0) r=GEOSCoverageUnion_r(h,g); else if(c==1) r=GEOSDensify_r(h,g,1.0); else if(c==2) r=GEOSNode_r(h,g); else if(c==3) r=GEOSBuffer_r(h,g,1.0,2147483647); else if(c==4) r=GEOSOffsetCurve_r(h,g,1.0,8,1,5.0);
  fprintf(stderr,"result=%p\n",(void*)r); GEOS_finish_r(h); return 0;}
