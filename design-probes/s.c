#include <stdio.h>
#include <stdarg.h>
#include <geos_c.h>
static void msg(const char*f,...){va_list a;va_start(a,f);vfprintf(stderr,f,a);va_end(a);fputc('\n',stderr);}
static void cb(void*item,void*ud){ printf(" query hit %s\n",(char*)item);(void)ud;}
static int dist(const void*a,const void*b,double*d,void*ud){ GEOSContextHandle_t h=ud; return GEOSDistance_r(h,(const GEOSGeometry*)a,(const GEOSGeometry*)b,d);}
int main(){
  GEOSContextHandle_t h=GEOS_init_r(); GEOSContext_setErrorHandler_r(h,msg);
  GEOSSTRtree*t=GEOSSTRtree_create_r(h,4);
  GEOSGeometry*g[3]; double xs[3]={0,10,20};
  for(int i=0;i<3;i++){ g[i]=GEOSGeom_createPointFromXY_r(h,xs[i],0); GEOSSTRtree_insert_r(h,t,g[i],g[i]); }
  GEOSGeometry*q=GEOSGeom_createPointFromXY_r(h,1,0);
  printf("removed=%d\n",GEOSSTRtree_remove_r(h,t,g[0],g[0]));
  const GEOSGeometry*n=GEOSSTRtree_nearest_r(h,t,q);
  double x; GEOSGeomGetX_r(h,n,&x); printf("nearest to x=1 after removing x=0: x=%g (expected 10)\n",x);
  n=(const GEOSGeometry*)GEOSSTRtree_nearest_generic_r(h,t,q,q,dist,h); GEOSGeomGetX_r(h,n,&x); printf("nearest_generic: x=%g\n",x);
  GEOS_finish_r(h);return 0;}
