From Coq Require Import ZArith NArith List Lia Bool.
Import ListNotations.
Local Open Scope N_scope.

(* bytes as N < 256 ; 4-byte little-endian counts ; 8-byte ordinates as N < 2^64 *)
Definition byte := N.
Fixpoint le_bytes (k: nat) (v: N) : list byte :=
  match k with O => [] | S k' => (v mod 256) :: le_bytes k' (v / 256) end.
Fixpoint le_value (l: list byte) : N :=
  match l with [] => 0 | b :: r => b + 256 * le_value r end.
Lemma le_value_bytes k v : v < 256 ^ N.of_nat k -> le_value (le_bytes k v) = v.
Proof.
  revert v; induction k as [|k IH]; intros v Hv.
  - simpl in *. lia.
  - cbn [le_bytes le_value]. rewrite IH.
    + pose proof (N.div_mod v 256). lia.
    + rewrite Nat2N.inj_succ, N.pow_succ_r' in Hv. apply N.div_lt_upper_bound; lia.
Qed.
Lemma le_bytes_len k v : length (le_bytes k v) = k.
Proof. revert v; induction k; simpl; auto. Qed.

Arguments le_bytes : simpl never.
Arguments le_value : simpl never.
Arguments N.mul : simpl never.
Arguments N.pow : simpl never.

Inductive geom :=
| Pt (x y: N)
| Ls (pts: list (N*N))
| Gc (gs: list geom).

Fixpoint wcoords (l: list (N*N)) : list byte :=
  match l with [] => [] | (x,y) :: r => le_bytes 8 x ++ le_bytes 8 y ++ wcoords r end.
Fixpoint write (g: geom) : list byte :=
  match g with
  | Pt x y => [1; 1] ++ le_bytes 8 x ++ le_bytes 8 y
  | Ls pts => [1; 2] ++ le_bytes 4 (N.of_nat (length pts)) ++ wcoords pts
  | Gc gs => [1; 7] ++ le_bytes 4 (N.of_nat (length gs)) ++ flat_map write gs
  end.

Definition take (k: nat) (l: list byte) : option (list byte * list byte) :=
  if Nat.leb k (length l) then Some (firstn k l, skipn k l) else None.
Definition rd (k: nat) (l: list byte) : option (N * list byte) :=
  match take k l with Some (a, r) => Some (le_value a, r) | None => None end.
Fixpoint rcoords (n: nat) (l: list byte) : option (list (N*N) * list byte) :=
  match n with O => Some ([], l) | S n' =>
    match rd 8 l with None => None | Some (x, l1) =>
    match rd 8 l1 with None => None | Some (y, l2) =>
    match rcoords n' l2 with None => None | Some (ps, l3) => Some ((x,y)::ps, l3) end end end end.

Section Many.
  Variable rd1 : list byte -> option (geom * list byte).
  Fixpoint read_many (k: nat) (l: list byte) : option (list geom * list byte) :=
    match k with O => Some ([], l) | S k' =>
      match rd1 l with None => None | Some (g, l1) =>
      match read_many k' l1 with None => None | Some (gs, l2) => Some (g :: gs, l2) end end end.
End Many.

(* fuel-driven reader; minMemSize-style check: count must not exceed remaining bytes *)
Fixpoint read (fuel: nat) (l: list byte) : option (geom * list byte) :=
  match fuel with O => None | S f =>
  match l with
  | 1 :: 1 :: r => match rd 8 r with None => None | Some (x, r1) => match rd 8 r1 with None => None | Some (y, r2) => Some (Pt x y, r2) end end
  | 1 :: 2 :: r => match rd 4 r with None => None | Some (n, r1) =>
        if N.of_nat (length r1) <? n * 16 then None else
        match rcoords (N.to_nat n) r1 with None => None | Some (ps, r2) => Some (Ls ps, r2) end end
  | 1 :: 7 :: r => match rd 4 r with None => None | Some (n, r1) =>
        if N.of_nat (length r1) <? n * 6 then None else
        match read_many (read f) (N.to_nat n) r1 with None => None | Some (gs, r2) => Some (Gc gs, r2) end end
  | _ => None
  end end.

(* well-formedness: ordinates are 64-bit words, counts fit 32 bits *)
Fixpoint wf (g: geom) : Prop :=
  match g with
  | Pt x y => x < 2^64 /\ y < 2^64
  | Ls pts => N.of_nat (length pts) < 2^32 /\ Forall (fun p => fst p < 2^64 /\ snd p < 2^64) pts
  | Gc gs => N.of_nat (length gs) < 2^32 /\ (fix all (l: list geom) : Prop := match l with [] => True | g :: r => wf g /\ all r end) gs
  end.
Fixpoint depth (g: geom) : nat :=
  match g with Gc gs => S (fold_right (fun g d => Nat.max (depth g) d) O gs) | _ => 1%nat end.

Lemma rd_app k v rest : v < 256 ^ N.of_nat k -> rd k (le_bytes k v ++ rest) = Some (v, rest).
Proof.
  intros Hv. unfold rd, take. rewrite app_length, le_bytes_len.
  replace (Nat.leb k (k + length rest)) with true by (symmetry; apply Nat.leb_le; lia).
  rewrite firstn_app, skipn_app, le_bytes_len, Nat.sub_diag. simpl.
  rewrite firstn_all2 by (rewrite le_bytes_len; lia). rewrite skipn_all2 by (rewrite le_bytes_len; lia).
  rewrite app_nil_r. simpl. rewrite le_value_bytes by assumption. reflexivity.
Qed.

Lemma rcoords_app pts rest : Forall (fun p => fst p < 2^64 /\ snd p < 2^64) pts ->
  rcoords (length pts) (wcoords pts ++ rest) = Some (pts, rest).
Proof.
  induction 1 as [|[x y] r [Hx Hy] _ IH]; cbn [rcoords wcoords length]; [reflexivity|]. cbn [fst snd] in Hx, Hy.
  rewrite <- ?app_assoc. rewrite rd_app by exact Hx. rewrite rd_app by exact Hy. rewrite IH. reflexivity.
Qed.

Lemma wcoords_len pts : length (wcoords pts) = (16 * length pts)%nat.
Proof. induction pts as [|[x y] r IH]; cbn [wcoords length]; [reflexivity|]. rewrite !app_length, !le_bytes_len, IH. lia. Qed.

Lemma write_len_ge g : (6 <= length (write g))%nat.
Proof. destruct g; cbn [write]; rewrite ?app_length, ?le_bytes_len; cbn [length]; lia. Qed.
Lemma flat_write_len gs : (6 * length gs <= length (flat_map write gs))%nat.
Proof. induction gs as [|g r IH]; cbn [flat_map length]; [lia|]. rewrite app_length. pose proof (write_len_ge g). lia. Qed.

Theorem roundtrip : forall fuel g rest, wf g -> (depth g <= fuel)%nat -> read fuel (write g ++ rest) = Some (g, rest).
Proof.
  induction fuel as [|f IH]; intros g rest Hwf Hd.
  - destruct g; simpl in Hd; lia.
  - destruct g as [x y | pts | gs]; cbn [write read app].
    + destruct Hwf as [Hx Hy]. rewrite <- ?app_assoc. rewrite rd_app by exact Hx. rewrite rd_app by exact Hy. reflexivity.
    + destruct Hwf as [Hn Hp]. rewrite <- ?app_assoc. rewrite rd_app by exact Hn.
      replace (N.of_nat (length (wcoords pts ++ rest)) <? N.of_nat (length pts) * 16) with false.
      2:{ symmetry. apply N.ltb_ge. rewrite app_length, wcoords_len. lia. }
      rewrite Nat2N.id. rewrite rcoords_app by exact Hp. reflexivity.
    + destruct Hwf as [Hn Hg]. rewrite <- ?app_assoc. rewrite rd_app by exact Hn.
      replace (N.of_nat (length (flat_map write gs ++ rest)) <? N.of_nat (length gs) * 6) with false.
      2:{ symmetry. apply N.ltb_ge. rewrite app_length. pose proof (flat_write_len gs). lia. }
      rewrite Nat2N.id.
      assert (Hmany : read_many (read f) (length gs) (flat_map write gs ++ rest) = Some (gs, rest)).
      { simpl in Hd. apply le_S_n in Hd. clear Hn.
        induction gs as [|g r IHr]; simpl; [reflexivity|].
        destruct Hg as [Hg1 Hg2]. simpl in Hd.
        rewrite <- app_assoc. rewrite IH; [|exact Hg1|lia]. rewrite IHr; [reflexivity|exact Hg2|lia]. }
      rewrite Hmany. reflexivity.
Qed.
Print Assumptions roundtrip.
