#include <stdio.h>
#include <stdlib.h>
#include <string.h>
#include <stdarg.h>
#include <geos_c.h>
static int nerr=0; static char last[512];
static void msg(const char*f,...){va_list a;va_start(a,f);vsnprintf(last,512,f,a);va_end(a);nerr++;}
int main(){ setvbuf(stdout,0,_IONBF,0);
  GEOSContextHandle_t h=GEOS_init_r(); GEOSContext_setErrorHandler_r(h,msg);
  const char* in[]={"POINT(1 2)","POINT Z(1 2 3)","POINT M(1 2 4)","POINT ZM(1 2 3 4)","POINT Z EMPTY","POINT M EMPTY","POINT ZM EMPTY","LINESTRING ZM(1 2 3 4, 5 6 7 8)","POLYGON M((0 0 1,1 0 1,1 1 1,0 0 1))","GEOMETRYCOLLECTION M(POINT M(1 2 3),LINESTRING M EMPTY)","MULTIPOINT ZM((1 2 3 4),EMPTY)","POINT Z(1 2 NaN)","LINESTRING Z(1 2 NaN, 3 4 5)","POINT(NaN NaN)","POINT(Infinity -Infinity)","CIRCULARSTRING Z(0 0 1,1 1 1,2 0 1)","MULTIPOINT(EMPTY,(1 1))","GEOMETRYCOLLECTION(GEOMETRYCOLLECTION EMPTY,POINT EMPTY)","LINEARRING(0 0,1 0,1 1,0 0)"};
  int N=sizeof(in)/sizeof(in[0]); int fails=0,total=0;
  for(int i=0;i<N;i++){ GEOSGeometry*g=GEOSGeomFromWKT_r(h,in[i]); if(!g){printf("cannot read input %s: %s\n",in[i],last);continue;}
    for(int od=2;od<=4;od++) for(int o3=0;o3<2;o3++) for(int trim=0;trim<2;trim++){
      GEOSWKTWriter*w=GEOSWKTWriter_create_r(h); GEOSWKTWriter_setOutputDimension_r(h,w,od); GEOSWKTWriter_setOld3D_r(h,w,o3); GEOSWKTWriter_setTrim_r(h,w,trim);
      char*s=GEOSWKTWriter_write_r(h,w,g); total++; nerr=0; GEOSWKTReader*r=GEOSWKTReader_create_r(h); GEOSGeometry*q=GEOSWKTReader_read_r(h,r,s);
      if(!q){ fails++; printf("NOT RE-READABLE in=%s od=%d old3d=%d trim=%d out=%s err=%s\n",in[i],od,o3,trim,s,last);} 
      else { int zi=GEOSHasZ_r(h,q), mi=GEOSHasM_r(h,q); int z0=GEOSHasZ_r(h,g), m0=GEOSHasM_r(h,g); int ez=z0&&od>=3, em=m0&&(od==4||(od==3&&!z0)); if(zi!=ez||mi!=em) printf("DIM in=%s od=%d old3d=%d out=%s reread Z=%d M=%d expected Z=%d M=%d\n",in[i],od,o3,s,zi,mi,ez,em);} }
  }
  printf("total=%d notreadable=%d\n",total,fails);
  GEOS_finish_r(h);return 0;}
