#include <stdio.h>
#include <pthread.h>
#include <stdarg.h>
#include <geos_c.h>
static void msg(const char*f,...){(void)f;}
static void* work(void*arg){
  for(int k=0;k<20;k++){
  GEOSContextHandle_t h=GEOS_init_r(); GEOSContext_setErrorHandler_r(h,msg);
  GEOSGeometry*p=GEOSGeom_createPointFromXY_r(h,1.0+(long)arg,2);
  GEOSGeometry*b=GEOSBuffer_r(h,p,10,8);
  double a; GEOSArea_r(h,b,&a);
  GEOSGeom_destroy_r(h,b); GEOSGeom_destroy_r(h,p);
  GEOS_finish_r(h);}
  return NULL;}
int main(){ pthread_t t[2]; for(long i=0;i<2;i++)pthread_create(&t[i],0,work,(void*)i); for(int i=0;i<2;i++)pthread_join(t[i],0); puts("done"); return 0;}
