#include <stdio.h>
#include <stdlib.h>
#include <stdarg.h>
#include <geos_c.h>
static void msg(const char*f,...){va_list a;va_start(a,f);vfprintf(stderr,f,a);va_end(a);fputc('\n',stderr);}
static void show(GEOSContextHandle_t h,const char*tag,GEOSGeometry*g){ if(!g){printf("%s -> NULL\n",tag);return;} GEOSWKTWriter*w=GEOSWKTWriter_create_r(h); GEOSWKTWriter_setTrim_r(h,w,1); char*s=GEOSWKTWriter_write_r(h,w,g); double L; GEOSLength_r(h,g,&L); printf("%s -> %s len=%g\n",tag,s,L); GEOSFree_r(h,s);}
int main(){ setvbuf(stdout,0,_IONBF,0);
  GEOSContextHandle_t h=GEOS_init_r(); GEOSContext_setErrorHandler_r(h,msg);
  const char* in[]={"MULTILINESTRING((0 0,1 0),(0 0,1 0))","MULTILINESTRING((0 0,1 0),(1 0,0 0))","MULTILINESTRING((0 0,1 0),(1 0,1 1),(1 1,0 0))","MULTILINESTRING((0 0,1 0),(2 0,1 0))","MULTILINESTRING((0 0,1 0),(1 0,2 0),(1 0,1 1))","MULTILINESTRING((0 0,1 0,1 0),(1 0,2 0))","MULTILINESTRING((0 0,0 0),(0 0,1 0))","LINESTRING(0 0,2 2,2 0,0 2)"};
  for(int i=0;i<8;i++){ GEOSGeometry*g=GEOSGeomFromWKT_r(h,in[i]); double L; GEOSLength_r(h,g,&L); printf("in %s len=%g\n",in[i],L);
    show(h," merge",GEOSLineMerge_r(h,g)); show(h," mergeDirected",GEOSLineMergeDirected_r(h,g)); show(h," node",GEOSNode_r(h,g)); show(h," unaryunion",GEOSUnaryUnion_r(h,g));}
  GEOS_finish_r(h);return 0;}
