from g import *
norm=F('GEOSNormalize_r',ctypes.c_int,P); hull=un('GEOSConvexHull_r'); cen=un('GEOSGetCentroid_r'); pos=un('GEOSPointOnSurface_r'); env=un('GEOSEnvelope_r'); mbc=F('GEOSMinimumBoundingCircle_r',P,P,ctypes.POINTER(ctypes.c_double),ctypes.POINTER(P)); mrr=un('GEOSMinimumRotatedRectangle_r'); mw=un('GEOSMinimumWidth_r'); rev=un('GEOSReverse_r'); bnd=un('GEOSBoundary_r')
eqx=F('GEOSEqualsIdentical_r',ctypes.c_char,P,P)
def N(s): g=G(s); norm(g); return wkt(g)
tests=[("POLYGON((0 0,10 0,10 10,0 10,0 0),(1 1,1 2,2 2,2 1,1 1),(5 5,6 5,6 6,5 6,5 5))","POLYGON((10 10,0 10,0 0,10 0,10 10),(5 5,5 6,6 6,6 5,5 5),(2 2,2 1,1 1,1 2,2 2))"),
 ("MULTIPOINT((1 1),(0 0),(1 1))","MULTIPOINT((1 1),(1 1),(0 0))"),
 ("LINESTRING(0 0,1 1,2 0)","LINESTRING(2 0,1 1,0 0)"),
 ("GEOMETRYCOLLECTION(POINT(1 1),LINESTRING(0 0,1 1),POLYGON((0 0,1 0,1 1,0 0)))","GEOMETRYCOLLECTION(POLYGON((1 1,0 0,1 0,1 1)),POINT(1 1),LINESTRING(1 1,0 0))"),
 ("LINESTRING(0 0,1 0,1 1,0 0)","LINESTRING(1 0,1 1,0 0,1 0)"),
 ("POLYGON((0 0,0 0,1 0,1 1,0 0))","POLYGON((1 0,1 1,0 0,0 0,1 0))"),
]
for a,b in tests:
    na,nb=N(a),N(b); print("EQ" if na==nb else "DIFF",na,"|",nb)
for s in ["MULTIPOINT((0 0),(1 1),(2 2))","MULTIPOINT((0 0),(0 0))","POLYGON((0 0,1 1,2 2,0 0))","LINESTRING(0 0,10 0,5 0)","POLYGON((0 0,10 0,10 10,5 0,0 10,0 0))","GEOMETRYCOLLECTION(POINT(5 5),LINESTRING(0 0,10 0))","MULTIPOINT((0 0),(4 0),(4 3),(0 3),(2 1))","POLYGON((0 0,4 0,4 0,0 0))","LINESTRING EMPTY","GEOMETRYCOLLECTION(LINESTRING(0 0,0 0),POINT(3 3))"]:
    g=G(s); r=ctypes.c_double(); c=P()
    print(s,"\n  hull",wkt(hull(g)),"\n  centroid",wkt(cen(g)),"\n  pos",wkt(pos(g)),"\n  env",wkt(env(g)),"\n  mbc",wkt(mbc(g,ctypes.byref(r),ctypes.byref(c))),r.value,"\n  mrr",wkt(mrr(g)),"\n  minwidth",wkt(mw(g)), ERR[-1:] )
