import ctypes, os, sys, signal, time, math
from g import *
geoms = {
 'pt':"POINT(1 2)",'ptE':"POINT EMPTY",'ptNaN':"POINT(NaN 1)",'ptInf':"POINT(Infinity 1)",'ptBig':"POINT(1e300 -1e300)",
 'ls':"LINESTRING(0 0,10 0,10 10)",'lsE':"LINESTRING EMPTY",'ls0':"LINESTRING(1 1,1 1)",'lsNaN':"LINESTRING(0 0,NaN 5,10 10)",'lsInf':"LINESTRING(0 0,Infinity 5)",'lsBig':"LINESTRING(0 0,1e300 1e300,-1e300 1e300)",
 'pg':"POLYGON((0 0,10 0,10 10,0 10,0 0),(2 2,4 2,4 4,2 4,2 2))",'pgE':"POLYGON EMPTY",'pgBow':"POLYGON((0 0,10 10,10 0,0 10,0 0))",'pgNaN':"POLYGON((0 0,10 0,NaN 10,0 10,0 0))",'pgFlat':"POLYGON((0 0,10 0,5 0,0 0))",'pgInf':"POLYGON((0 0,Infinity 0,10 10,0 0))",
 'mp':"MULTIPOINT((0 0),EMPTY,(1 1))",'mpg':"MULTIPOLYGON(((0 0,1 0,1 1,0 0)),EMPTY,((0 0,1 0,1 1,0 0)))",'gc':"GEOMETRYCOLLECTION(POINT(1 1),LINESTRING EMPTY,GEOMETRYCOLLECTION(POLYGON((0 0,1 0,1 1,0 0))))",'gcE':"GEOMETRYCOLLECTION EMPTY",
 'cs':"CIRCULARSTRING(0 0,1 1,2 0)",'cp':"CURVEPOLYGON(CIRCULARSTRING(0 0,1 1,2 0,1 -1,0 0))",
}
nums=[0.0,1.0,-1.0,1e-300,1e300,float('nan'),float('inf'),-float('inf'),0.5,2.0]
ints=[0,1,-1,2,8,1000000,-1000000,2147483647]
P=ctypes.c_void_p; D=ctypes.c_double; I=ctypes.c_int
un_ops=['GEOSEnvelope_r','GEOSConvexHull_r','GEOSBoundary_r','GEOSGetCentroid_r','GEOSPointOnSurface_r','GEOSUnaryUnion_r','GEOSMakeValid_r','GEOSLineMerge_r','GEOSReverse_r','GEOSMinimumRotatedRectangle_r','GEOSMinimumWidth_r','GEOSNode_r','GEOSBuildArea_r','GEOSGeom_extractUniquePoints_r','GEOSMinimumClearanceLine_r','GEOSCoverageUnion_r','GEOSDisjointSubsetUnion_r','GEOSConstrainedDelaunayTriangulation_r','GEOSLineMergeDirected_r','GEOSPolygonHullSimplify_r' ]
und_ops=[('GEOSSimplify_r',[D]),('GEOSTopologyPreserveSimplify_r',[D]),('GEOSDensify_r',[D]),('GEOSRemoveRepeatedPoints_r',[D]),('GEOSMaximumInscribedCircle_r',[D]),('GEOSConcaveHull_r',[D,I]),('GEOSDelaunayTriangulation_r',[D,I]),('GEOSOffsetCurve_r',[D,I,I,D]),('GEOSBuffer_r',[D,I]),('GEOSGeom_setPrecision_r',[D,I]),('GEOSInterpolate_r',[D]),('GEOSLineSubstring_r',[D,D]),('GEOSGeom_transformXY_r',None),('GEOSSingleSidedBuffer_r',[D,I,I,D,I]),('GEOSPolygonHullSimplify_r',[I,D]),('GEOSConcaveHullByLength_r',[D,I]),('GEOSBufferWithStyle_r',[D,I,I,I,D])]
bin_ops=['GEOSIntersection_r','GEOSUnion_r','GEOSDifference_r','GEOSSymDifference_r','GEOSSnap_r','GEOSSharedPaths_r','GEOSClipByRect_r','GEOSLargestEmptyCircle_r','GEOSVoronoiDiagram_r']
bin_pred=['GEOSIntersects_r','GEOSContains_r','GEOSTouches_r','GEOSCrosses_r','GEOSEquals_r','GEOSCovers_r','GEOSOverlaps_r','GEOSRelate_r','GEOSDistance_r','GEOSHausdorffDistance_r','GEOSFrechetDistance_r','GEOSDistanceWithin_r','GEOSEqualsExact_r','GEOSProject_r','GEOSNearestPoints_r','GEOSHausdorffDistanceDensify_r']
def run(desc, thunk):
    r,w=os.pipe(); pid=os.fork()
    if pid==0:
        os.close(r); signal.alarm(10)
        try: thunk(); os.write(w,b'ok')
        except Exception as e: os.write(w,b'py:'+str(e).encode()[:60])
        os._exit(0)
    os.close(w); _,st=os.waitpid(pid,0); out=os.read(r,100); os.close(r)
    if os.WIFSIGNALED(st):
        sig=os.WTERMSIG(st); print(("TIMEOUT" if sig==signal.SIGALRM else "SIGNAL %d"%sig), desc, flush=True); return 1
    return 0
G_={k:G(v) for k,v in geoms.items() if True}
bad=0
for op in un_ops:
    f=getattr(L,op); f.restype=P; f.argtypes=[P,P]
    for k,g in G_.items(): bad+=run("%s(%s)"%(op,k), lambda: f(h,g))
for op,sig in und_ops:
    if sig is None: continue
    f=getattr(L,op); f.restype=P; f.argtypes=[P,P]+sig
    import itertools
    for k,g in G_.items():
        for d in nums:
            args=[]
            for t in sig: args.append(d if t is D else 8)
            if sig.count(D)==2: args[[i for i,t in enumerate(sig) if t is D][1]] = 1.0
            bad+=run("%s(%s,%r)"%(op,k,args), lambda: f(h,g,*args))
        for iv in ints:
            if I not in sig: break
            args=[]
            for t in sig: args.append(1.0 if t is D else iv)
            bad+=run("%s(%s,%r)"%(op,k,args), lambda: f(h,g,*args))
print("unary/param done, anomalies",bad,flush=True)
keysA=list(G_.keys())
for op in bin_ops:
    f=getattr(L,op); f.restype=P
    if op=='GEOSSnap_r' : f.argtypes=[P,P,P,D]; call=lambda a,b: f(h,a,b,1.0)
    elif op=='GEOSClipByRect_r': f.argtypes=[P,P,D,D,D,D]; call=lambda a,b: f(h,a,0.0,0.0,5.0,5.0)
    elif op=='GEOSLargestEmptyCircle_r': f.argtypes=[P,P,P,D]; call=lambda a,b: f(h,a,b,0.1)
    elif op=='GEOSVoronoiDiagram_r': f.argtypes=[P,P,P,D,I]; call=lambda a,b: f(h,a,b,0.0,0)
    else: f.argtypes=[P,P,P]; call=lambda a,b: f(h,a,b)
    for ka in keysA:
        for kb in keysA:
            bad+=run("%s(%s,%s)"%(op,ka,kb), lambda: call(G_[ka],G_[kb]))
print("binary done, anomalies",bad,flush=True)
