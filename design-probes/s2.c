#include <stdio.h>
#include <stdlib.h>
#include <stdarg.h>
#include <geos_c.h>
static void msg(const char*f,...){va_list a;va_start(a,f);vfprintf(stderr,f,a);va_end(a);fputc('\n',stderr);}
static void cb(void*item,void*ud){(void)item;(*(int*)ud)++;}
int main(){ setvbuf(stdout,0,_IONBF,0);
  GEOSContextHandle_t h=GEOS_init_r(); GEOSContext_setErrorHandler_r(h,msg);
  for(int n=1;n<=3;n++){
  GEOSSTRtree*t=GEOSSTRtree_create_r(h,4);
  GEOSGeometry*g[3]; for(int i=0;i<n;i++){ g[i]=GEOSGeom_createPointFromXY_r(h,i,0); GEOSSTRtree_insert_r(h,t,g[i],g[i]); }
  int c=0; GEOSSTRtree_query_r(h,t,g[0],cb,&c); printf("n=%d hits before remove=%d; ",n,c);
  printf("removed=%d; ",GEOSSTRtree_remove_r(h,t,g[0],g[0]));
  c=0; GEOSSTRtree_query_r(h,t,g[0],cb,&c); printf("hits after remove=%d; ",c);
  c=0; GEOSSTRtree_iterate_r(h,t,cb,&c); printf("iterate count=%d; ",c);
  printf("remove again=%d\n",GEOSSTRtree_remove_r(h,t,g[0],g[0]));
  }
  GEOS_finish_r(h);return 0;}
