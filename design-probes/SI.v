From Coq Require Import ZArith Lia Psatz Bool.
Local Open Scope Z_scope.
Definition pt := (Z*Z)%type.
Definition det (a b c: pt) : Z := (fst b - fst a)*(snd c - snd a) - (snd b - snd a)*(fst c - fst a).
Record qpt := { qx:Z; qy:Z; qw:Z }.
Definition qdet (a b: pt) (p: qpt) : Z := (fst b - fst a)*(qy p - qw p*snd a) - (snd b - snd a)*(qx p - qw p*fst a).
Definition qon (p: qpt) (a b: pt) : Prop :=
  exists n, 0 < qw p /\ 0 <= n <= qw p /\ qx p = (qw p - n)*fst a + n*fst b /\ qy p = (qw p - n)*snd a + n*snd b.

(* Envelope::intersects(p1,p2,q1,q2) *)
Definition envint (p1 p2 q1 q2: pt) : bool :=
  negb (Z.max (fst q1) (fst q2) <? Z.min (fst p1) (fst p2)) && negb (Z.max (fst p1) (fst p2) <? Z.min (fst q1) (fst q2)) &&
  negb (Z.max (snd q1) (snd q2) <? Z.min (snd p1) (snd p2)) && negb (Z.max (snd p1) (snd p2) <? Z.min (snd q1) (snd q2)).

Lemma qon_box_x p a b : qon p a b -> qw p * Z.min (fst a) (fst b) <= qx p <= qw p * Z.max (fst a) (fst b).
Proof. intros (n & Hw & Hn & Hx & Hy). rewrite Hx.
  destruct (Z.min_spec (fst a) (fst b)) as [[? ->]|[? ->]]; destruct (Z.max_spec (fst a) (fst b)) as [[? ->]|[? ->]]; nia. Qed.
Lemma qon_box_y p a b : qon p a b -> qw p * Z.min (snd a) (snd b) <= qy p <= qw p * Z.max (snd a) (snd b).
Proof. intros (n & Hw & Hn & Hx & Hy). rewrite Hy.
  destruct (Z.min_spec (snd a) (snd b)) as [[? ->]|[? ->]]; destruct (Z.max_spec (snd a) (snd b)) as [[? ->]|[? ->]]; nia. Qed.

Lemma env_disjoint_sound p1 p2 q1 q2 p : envint p1 p2 q1 q2 = false -> qon p p1 p2 -> qon p q1 q2 -> False.
Proof.
  intros He Hp Hq.
  pose proof (qon_box_x _ _ _ Hp) as Hpx. pose proof (qon_box_y _ _ _ Hp) as Hpy.
  pose proof (qon_box_x _ _ _ Hq) as Hqx. pose proof (qon_box_y _ _ _ Hq) as Hqy.
  assert (Hw: 0 < qw p) by (destruct Hp as (n & ? & _); assumption).
  unfold envint in He. rewrite !andb_false_iff, !negb_false_iff, !Z.ltb_lt in He.
  destruct He as [[[He|He]|He]|He]; nia.
Qed.

(* proper crossing: the Cramer point *)
Definition cross_pt (p1 p2 q1 q2: pt) : qpt :=
  let d1 := det q1 q2 p1 in let d2 := det q1 q2 p2 in
  let w := d1 - d2 in
  if 0 <? w then {| qx := (w - d1)*fst p1 + d1*fst p2; qy := (w - d1)*snd p1 + d1*snd p2; qw := w |}
  else {| qx := ((-w) - (-d1))*fst p1 + (-d1)*fst p2; qy := ((-w) - (-d1))*snd p1 + (-d1)*snd p2; qw := -w |}.

Lemma cross_on_p p1 p2 q1 q2 :
  det q1 q2 p1 * det q1 q2 p2 <= 0 -> det q1 q2 p1 <> det q1 q2 p2 -> qon (cross_pt p1 p2 q1 q2) p1 p2.
Proof.
  intros Hs Hne. unfold cross_pt. set (d1 := det q1 q2 p1) in *. set (d2 := det q1 q2 p2) in *.
  destruct (Z.ltb_spec 0 (d1 - d2)); simpl.
  - exists d1. simpl. repeat split; try lia; nia.
  - exists (-d1). simpl. repeat split; try lia; nia.
Qed.

(* the same point in terms of q's parameters *)
Lemma cross_on_q p1 p2 q1 q2 :
  det q1 q2 p1 * det q1 q2 p2 <= 0 -> det q1 q2 p1 <> det q1 q2 p2 ->
  det p1 p2 q1 * det p1 p2 q2 <= 0 ->
  qon (cross_pt p1 p2 q1 q2) q1 q2.
Proof.
  intros Hs Hne Hs2.
  destruct p1 as [ax ay], p2 as [bx by_], q1 as [cx cy], q2 as [dx dy].
  unfold cross_pt, det in *; simpl in *.
  set (d1 := (dx - cx) * (ay - cy) - (dy - cy) * (ax - cx)) in *.
  set (d2 := (dx - cx) * (by_ - cy) - (dy - cy) * (bx - cx)) in *.
  set (e1 := (bx - ax) * (cy - ay) - (by_ - ay) * (cx - ax)) in *.
  set (e2 := (bx - ax) * (dy - ay) - (by_ - ay) * (dx - ax)) in *.
  assert (Hrel : e1 - e2 = -(d1 - d2)) by (unfold e1, e2, d1, d2; ring).
  destruct (Z.ltb_spec 0 (d1 - d2)); simpl.
  - (* w = d1-d2 > 0 ; e1 - e2 = -w ; parameter along q: s = e1/(e1-e2) = -e1 / w *)
    exists (-e1). simpl. split; [lia|]. split; [nia|]. split; unfold e1, e2, d1, d2 in *; ring_simplify; ring.
  - exists e1. simpl. split; [lia|]. split; [nia|]. split; unfold e1, e2, d1, d2 in *; ring.
Qed.
Print Assumptions cross_on_q.
