#include <stdio.h>
#include <stdarg.h>
#include <geos_c.h>
static void msg(const char*f,...){va_list a;va_start(a,f);vfprintf(stderr,f,a);va_end(a);fputc('\n',stderr);}
static void show(GEOSContextHandle_t h,const char*tag,GEOSGeometry*g){ if(!g){printf("%s -> NULL\n",tag);return;} GEOSWKTWriter*w=GEOSWKTWriter_create_r(h); GEOSWKTWriter_setTrim_r(h,w,1); char*s=GEOSWKTWriter_write_r(h,w,g); printf("%s -> %s\n",tag,s); GEOSFree_r(h,s);}
int main(){
  GEOSContextHandle_t h=GEOS_init_r(); GEOSContext_setErrorHandler_r(h,msg);
  const char* in[]={"LINESTRING(0 0, 1 0, 2 0)","LINESTRING(0 0, 1 0, 1 0, 2 1)","POLYGON((0 0, 5 0, 10 0, 10 10, 0 10, 0 0))","LINESTRING(0 0, 0 0)","POLYGON((0 0,10 0,10 10,0 10,0 0),(1 1,2 1,2 2,1 2,1 1))"};
  for(int i=0;i<5;i++){ GEOSGeometry*g=GEOSGeomFromWKT_r(h,in[i]); printf("in %s valid=%d\n",in[i],GEOSisValid_r(h,g));
    show(h," simplify0",GEOSSimplify_r(h,g,0)); show(h," tps0",GEOSTopologyPreserveSimplify_r(h,g,0)); show(h," simplify20",GEOSSimplify_r(h,g,20)); show(h," tps20",GEOSTopologyPreserveSimplify_r(h,g,20));}
  char buf[64]; int n=GEOS_printDouble(1e-5,3,buf); buf[n]=0; printf("printDouble(1e-5,3)=%s\n",buf);
  n=GEOS_printDouble(0.00012345,2,buf); buf[n]=0; printf("printDouble(0.00012345,2)=%s\n",buf);
  n=GEOS_printDouble(99999999999999999.0,0,buf); buf[n]=0; printf("printDouble(1e17-,0)=%s len=%d\n",buf,n);
  n=GEOS_printDouble(-0.00010000000000000002,20,buf); buf[n]=0; printf("%s len=%d\n",buf,n);
  n=GEOS_printDouble(-1.2345678901234567e-300,20,buf); buf[n]=0; printf("%s len=%d\n",buf,n);
  n=GEOS_printDouble(-12345678901234567.0,20,buf); buf[n]=0; printf("%s len=%d\n",buf,n);
  n=GEOS_printDouble(-0.00012345678901234567,20,buf); buf[n]=0; printf("%s len=%d\n",buf,n);
  GEOS_finish_r(h);return 0;}
