#include <stdio.h>
#include <stdlib.h>
#include <stdarg.h>
#include <geos_c.h>
static void msg(const char*f,...){va_list a;va_start(a,f);vfprintf(stderr,f,a);va_end(a);fputc('\n',stderr);}
static void show(GEOSContextHandle_t h,const char*tag,GEOSGeometry*g){ if(!g){printf("%s -> NULL\n",tag);return;} GEOSWKTWriter*w=GEOSWKTWriter_create_r(h); GEOSWKTWriter_setTrim_r(h,w,1); GEOSWKTWriter_setOutputDimension_r(h,w,4); char*s=GEOSWKTWriter_write_r(h,w,g); printf("%s -> %s valid=%d\n",tag,s,GEOSisValid_r(h,g)); GEOSFree_r(h,s);}
int main(){
  GEOSContextHandle_t h=GEOS_init_r(); GEOSContext_setErrorHandler_r(h,msg);
  const char* in[]={"LINESTRING(0 0, 0.4 0)","MULTILINESTRING((0 0, 0.4 0),(5 5, 6 6))","GEOMETRYCOLLECTION(LINESTRING(0 0, 0.4 0),POLYGON((0 0, 10 0, 10 0.4, 0 0)))","LINESTRING(0 0, 0.4 0, 0.2 0.3)","POLYGON((0 0, 10 0, 10 0.4, 0 0))","POLYGON((0 0, 10 0, 10 10, 5 0.2, 0 10, 0 0))","MULTIPOLYGON(((0 0, 10 0, 10 0.4, 0 0)),((20 20,30 20,30 30,20 20)))"};
  for(int i=0;i<7;i++){ GEOSGeometry*g=GEOSGeomFromWKT_r(h,in[i]); printf("in %s\n",in[i]);
    show(h," default",GEOSGeom_setPrecision_r(h,g,1.0,0)); show(h," pointwise",GEOSGeom_setPrecision_r(h,g,1.0,GEOS_PREC_NO_TOPO)); show(h," keepcollapsed",GEOSGeom_setPrecision_r(h,g,1.0,GEOS_PREC_KEEP_COLLAPSED));}
  GEOS_finish_r(h);return 0;}
