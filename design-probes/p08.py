from g import *
import random, sys
from fractions import Fraction as Fr
exec(open('p02.py').read().split("R=random.Random")[0].split("from g import *")[1])
dist=dbl2('GEOSDistance_r'); disti=dbl2('GEOSDistanceIndexed_r'); inter=F('GEOSIntersects_r',ctypes.c_char,P,P)
dwithin=F('GEOSDistanceWithin_r',ctypes.c_char,P,P,ctypes.c_double)
pdist=F('GEOSPreparedDistance_r',ctypes.c_int,P,P,ctypes.POINTER(ctypes.c_double))
R=random.Random(5); bad=0;n=0
import math
while n<4000:
    wa,wb=geom(R),geom(R)
    try: A,B=G(wa),G(wb)
    except Exception: continue
    if not b(isvalid(A)) or not b(isvalid(B)): continue
    n+=1
    d1=dist(A,B); d2=dist(B,A); di=disti(A,B); it=b(inter(A,B))
    dd=ctypes.c_double(); pdist(prep(A),B,ctypes.byref(dd))
    if d1!=d2 or abs(d1-di)>1e-12*max(1,d1) or (d1==0)!=(it==1) or abs(dd.value-d1)>1e-12*max(1,d1):
        bad+=1; print("DIST",wa,wb,d1,d2,di,dd.value,it)
    # within thresholds
    if d1>0:
        lo=math.nextafter(d1,0); hi=math.nextafter(d1,1e9)
        w=(b(dwithin(A,B,lo)),b(dwithin(A,B,d1)),b(dwithin(A,B,hi)))
        if w!=(0,1,1): bad+=1; print("WITHIN",wa,wb,d1,w)
print("pairs",n,"bad",bad)
