from g import *
import random, sys
exec(open('p02.py').read().split("R=random.Random")[0].split("from g import *")[1])
ops={n:bi('GEOS'+n+'_r') for n in ['Intersection','Union','Difference','SymDifference']}
area=dbl('GEOSArea_r'); length=dbl('GEOSLength_r'); uu=un('GEOSUnaryUnion_r'); eqx=F('GEOSEquals_r',ctypes.c_char,P,P)
R=random.Random(int(sys.argv[1])); bad=0;n=0
while n<int(sys.argv[2]):
    wa,wb=geom(R),geom(R)
    try: A,B=G(wa),G(wb)
    except Exception: continue
    if not b(isvalid(A)) or not b(isvalid(B)): continue
    n+=1
    res={}
    for k,f in ops.items():
        r=f(A,B)
        if not r: bad+=1; print("EXC",k,wa,wb,ERR[-1:]); continue
        if not b(isvalid(r)): bad+=1; print("INVALID",k,wa,wb,wkt(r))
        res[k]=r
    if len(res)==4:
        aA,aB=area(A),area(B); aI,aU,aD,aS=[area(res[k]) for k in ['Intersection','Union','Difference','SymDifference']]
        if abs(aI+aU-aA-aB)>1e-9*(1+aA+aB) or abs(aD-(aA-aI))>1e-9*(1+aA) or abs(aS-(aU-aI))>1e-9*(1+aU):
            bad+=1; print("AREA",wa,wb,aA,aB,aI,aU,aD,aS)
        # dimension rules
        dA,dB=dim(A),dim(B)
        if not b(isempty(res['Union'])) and dim(res['Union'])!=max(dA,dB): bad+=1; print("DIMU",wa,wb,wkt(res['Union']))
        if not b(isempty(res['Intersection'])) and dim(res['Intersection'])>min(dA,dB): bad+=1; print("DIMI",wa,wb,wkt(res['Intersection']))
        if not b(isempty(res['Difference'])) and dim(res['Difference'])!=dA: bad+=1; print("DIMD",wa,wb,wkt(res['Difference']))
print("pairs",n,"bad",bad)
