From Coq Require Import ZArith List Bool Lia Permutation.
Import ListNotations.
Local Open Scope Z_scope.

Record env := { x0:Z; x1:Z; y0:Z; y1:Z }.
Definition inter (a b: env) : bool :=
  (x0 b <=? x1 a) && (x0 a <=? x1 b) && (y0 b <=? y1 a) && (y0 a <=? y1 b).
Definition hull (a b: env) : env :=
  {| x0 := Z.min (x0 a) (x0 b); x1 := Z.max (x1 a) (x1 b); y0 := Z.min (y0 a) (y0 b); y1 := Z.max (y1 a) (y1 b) |}.
Definition wfenv (e: env) := x0 e <= x1 e /\ y0 e <= y1 e.
Definition covers (a b: env) := x0 a <= x0 b /\ x1 b <= x1 a /\ y0 a <= y0 b /\ y1 b <= y1 a.

Lemma inter_covers a b q : covers a b -> inter b q = true -> inter a q = true.
Proof. unfold covers, inter. intros (C1&C2&C3&C4) Hq.
  apply andb_prop in Hq as [Hq H4]. apply andb_prop in Hq as [Hq H3]. apply andb_prop in Hq as [H1 H2].
  apply Z.leb_le in H1, H2, H3, H4. repeat (apply andb_true_intro; split); apply Z.leb_le; lia. Qed.

Section Tree.
Variable item : Type.
Inductive tree := Leaf (e: env) (it: item) (del: bool) | Node (e: env) (ch: list tree).
Definition bounds t := match t with Leaf e _ _ => e | Node e _ => e end.

Fixpoint qnode (q: env) (t: tree) : list item :=
  match t with
  | Leaf e it del => if inter e q && negb del then [it] else []
  | Node e ch => if inter e q then flat_map (qnode q) ch else []
  end.
(* query as coded: the root-as-leaf case does not test the deleted flag *)
Definition query_impl (q: env) (root: option tree) : list item :=
  match root with
  | None => []
  | Some (Leaf e it del) => if inter e q then [it] else []
  | Some (Node e ch) => if inter e q then flat_map (qnode q) ch else []
  end.
Definition query_fixed (q: env) (root: option tree) : list item :=
  match root with None => [] | Some t => qnode q t end.

Fixpoint live (t: tree) : list (env * item) :=
  match t with Leaf e it del => if del then [] else [(e,it)] | Node _ ch => flat_map live ch end.

Inductive WF : tree -> Prop :=
| WF_leaf e it d : WF (Leaf e it d)
| WF_node e ch : Forall WF ch -> Forall (fun c => covers e (bounds c)) ch -> WF (Node e ch).

Definition spec (q: env) (t: tree) : list item :=
  map snd (filter (fun p => inter (fst p) q) (live t)).

Lemma flat_map_filter {A} (f: A -> bool) (g: tree -> list A) ch :
  filter f (flat_map g ch) = flat_map (fun c => filter f (g c)) ch.
Proof. induction ch; simpl; [reflexivity|]. rewrite filter_app, IHch. reflexivity. Qed.


Section Ind.
  Variable P : tree -> Prop.
  Hypothesis Hleaf : forall e it d, P (Leaf e it d).
  Hypothesis Hnode : forall e ch, Forall P ch -> P (Node e ch).
  Fixpoint tree_ind' (t: tree) : P t :=
    match t with
    | Leaf e it d => Hleaf e it d
    | Node e ch => Hnode e ch ((fix go (l: list tree) : Forall P l :=
                       match l with [] => Forall_nil _ | c :: r => Forall_cons _ (tree_ind' c) (go r) end) ch)
    end.
End Ind.

Lemma spec_leaf q e it d : spec q (Leaf e it d) = if inter e q && negb d then [it] else [].
Proof. unfold spec; simpl. destruct d; simpl; [rewrite andb_false_r; reflexivity|].
  destruct (inter e q); reflexivity. Qed.

Lemma spec_node q e ch : spec q (Node e ch) = flat_map (spec q) ch.
Proof. unfold spec; simpl. rewrite flat_map_filter. 
  induction ch; simpl; [reflexivity|]. rewrite map_app, IHch. reflexivity. Qed.

Lemma no_hit_below q t : WF t -> inter (bounds t) q = false -> spec q t = [].
Proof.
  induction t as [e it d | e ch IH] using tree_ind'; intros Hwf Hq; simpl in Hq.
  - rewrite spec_leaf, Hq. reflexivity.
  - rewrite spec_node. inversion Hwf as [|? ? Hc Hb]; subst.
    induction ch as [|c r IHr]; simpl; [reflexivity|].
    inversion IH; inversion Hc; inversion Hb; subst.
    rewrite H1; auto.
    + rewrite IHr; auto. constructor; auto.
    + destruct (inter (bounds c) q) eqn:E; [|reflexivity].
      rewrite (inter_covers _ _ _ H9 E) in Hq. discriminate.
Qed.

Theorem qnode_spec q t : WF t -> qnode q t = spec q t.
Proof.
  induction t as [e it d | e ch IH] using tree_ind'; intros Hwf.
  - rewrite spec_leaf. reflexivity.
  - simpl. destruct (inter e q) eqn:E.
    + rewrite spec_node. inversion Hwf as [|? ? Hc Hb]; subst. clear Hb Hwf.
      induction ch as [|c r IHr]; simpl; [reflexivity|].
      inversion IH; inversion Hc; subst. rewrite H1, IHr; auto.
    + symmetry. apply (no_hit_below q (Node e ch) Hwf E).
Qed.

(* the fixed query is exact; the coded one is not *)
Corollary query_fixed_exact q t : WF t -> query_fixed q (Some t) = spec q t.
Proof. apply qnode_spec. Qed.

End Tree.

Definition e00 := {| x0:=0; x1:=0; y0:=0; y1:=0 |}.
Example query_impl_refuted :
  query_impl nat e00 (Some (Leaf nat e00 7%nat true)) <> spec nat e00 (Leaf nat e00 7%nat true).
Proof. vm_compute. discriminate. Qed.
Print Assumptions qnode_spec.
