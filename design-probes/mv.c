#include <stdio.h>
#include <stdlib.h>
#include <stdarg.h>
#include <geos_c.h>
static void msg(const char*f,...){va_list a;va_start(a,f);printf("   ERR: ");vprintf(f,a);va_end(a);printf("\n");}
static void show(GEOSContextHandle_t h,const char*tag,GEOSGeometry*g){ if(!g){printf("%s -> NULL\n",tag);return;} GEOSWKTWriter*w=GEOSWKTWriter_create_r(h); GEOSWKTWriter_setTrim_r(h,w,1); char*s=GEOSWKTWriter_write_r(h,w,g); printf("%s -> %s valid=%d\n",tag,s,GEOSisValid_r(h,g)); GEOSFree_r(h,s);}
int main(){ setvbuf(stdout,0,_IONBF,0);
  GEOSContextHandle_t h=GEOS_init_r(); GEOSContext_setErrorHandler_r(h,msg);
  const char* in[]={"POLYGON((0 0, NaN 1, 1 1, 0 0))","LINESTRING(0 0, Infinity 1)","POINT(NaN 1)","POLYGON((0 0,2 2,2 0,0 2,0 0))","LINESTRING(0 0,0 0)","POLYGON((0 0,1 0,0 0))","MULTIPOLYGON(((0 0,10 0,10 10,0 10,0 0)),((5 5,15 5,15 15,5 15,5 5)))","POLYGON((0 0,10 0,10 10,0 10,0 0),(20 20,30 20,30 30,20 20))","GEOMETRYCOLLECTION(POLYGON((0 0,2 2,2 0,0 2,0 0)),LINESTRING(0 0,0 0))"};
  for(int i=0;i<9;i++){ GEOSGeometry*g=GEOSGeomFromWKT_r(h,in[i]); printf("in %s\n",in[i]); if(!g) continue;
    show(h," linework",GEOSMakeValid_r(h,g));
    for(int kc=0;kc<2;kc++){ GEOSMakeValidParams*p=GEOSMakeValidParams_create_r(h); GEOSMakeValidParams_setMethod_r(h,p,GEOS_MAKE_VALID_STRUCTURE); GEOSMakeValidParams_setKeepCollapsed_r(h,p,kc); char t[32]; sprintf(t," structure kc=%d",kc); show(h,t,GEOSMakeValidWithParams_r(h,g,p)); }
  }
  GEOS_finish_r(h);return 0;}
