// throw-away mutational fuzz of the three readers + use of the result (write/clone/area/isValid/destroy)
#include <stdio.h>
#include <stdlib.h>
#include <string.h>
#include <stdarg.h>
#include <stdint.h>
#include <geos_c.h>
static void msg(const char*f,...){(void)f;}
static uint64_t st=88172645463325252ULL; static uint32_t rnd(){ st^=st<<13; st^=st>>7; st^=st<<17; return (uint32_t)(st>>11); }
static const char* seeds[]={
 "POINT(1 2)","POINT Z(1 2 3)","POINT EMPTY","LINESTRING(0 0,1 1,2 0)","LINESTRING ZM(0 0 1 2,1 1 3 4)","POLYGON((0 0,10 0,10 10,0 10,0 0),(1 1,2 1,2 2,1 1))","POLYGON EMPTY",
 "MULTIPOINT((1 1),EMPTY,(2 2))","MULTILINESTRING((0 0,1 1),EMPTY)","MULTIPOLYGON(((0 0,1 0,1 1,0 0)),EMPTY)","GEOMETRYCOLLECTION(POINT(1 1),LINESTRING(0 0,1 1),GEOMETRYCOLLECTION(POLYGON((0 0,1 0,1 1,0 0))))",
 "CIRCULARSTRING(0 0,1 1,2 0)","COMPOUNDCURVE(CIRCULARSTRING(0 0,1 1,2 0),(2 0,3 0))","CURVEPOLYGON(COMPOUNDCURVE(CIRCULARSTRING(0 0,1 1,2 0),(2 0,0 0)))","MULTICURVE((0 0,1 1),CIRCULARSTRING(0 0,1 1,2 0))","MULTISURFACE(((0 0,1 0,1 1,0 0)),CURVEPOLYGON(CIRCULARSTRING(0 0,1 1,2 0,1 -1,0 0)))","LINEARRING(0 0,1 0,1 1,0 0)"};
#define NS (sizeof(seeds)/sizeof(seeds[0]))
static void use(GEOSContextHandle_t h,GEOSGeometry*g){ if(!g) return; double d; GEOSArea_r(h,g,&d); GEOSLength_r(h,g,&d); GEOSisValid_r(h,g); GEOSisEmpty_r(h,g); GEOSGetNumCoordinates_r(h,g);
  GEOSGeometry*c=GEOSGeom_clone_r(h,g); if(c){ GEOSNormalize_r(h,c); GEOSGeom_destroy_r(h,c);} GEOSGeometry*e=GEOSEnvelope_r(h,g); if(e)GEOSGeom_destroy_r(h,e);
  GEOSWKBWriter*w=GEOSWKBWriter_create_r(h); GEOSWKBWriter_setOutputDimension_r(h,w,4); size_t n; unsigned char*b=GEOSWKBWriter_write_r(h,w,g,&n); if(b)GEOSFree_r(h,b); GEOSWKBWriter_destroy_r(h,w);
  GEOSWKTWriter*t=GEOSWKTWriter_create_r(h); char*s=GEOSWKTWriter_write_r(h,t,g); if(s)GEOSFree_r(h,s); GEOSWKTWriter_destroy_r(h,t);
  GEOSGeoJSONWriter*j=GEOSGeoJSONWriter_create_r(h); char*js=GEOSGeoJSONWriter_writeGeometry_r(h,j,g,-1); if(js)GEOSFree_r(h,js); GEOSGeoJSONWriter_destroy_r(h,j);
  GEOSGeom_destroy_r(h,g);}
static void mutate(unsigned char*b,size_t*n,size_t cap,int text){ int k=1+rnd()%4; for(int i=0;i<k&&*n>0;i++){ int op=rnd()%6; size_t p=rnd()%*n;
   if(op==0) b[p]^= (unsigned char)(1u<<(rnd()%8)); else if(op==1) b[p]= text? " (),0123456789.-eEZMNaInfEMPTY"[rnd()%30] : (unsigned char)rnd();
   else if(op==2 && *n>1){ *n = p; } else if(op==3 && *n+8<cap){ size_t l=1+rnd()%8; memmove(b+p+l,b+p,*n-p); for(size_t q=0;q<l;q++) b[p+q]= text? "(),0 1Z"[rnd()%7] : (unsigned char)(rnd()%3?0xFF:0); *n+=l; }
   else if(op==4 && !text && *n>=p+4){ uint32_t v = (rnd()%3==0)?0xFFFFFFFFu:(rnd()%3==0?0x7FFFFFFFu:rnd()%100000); memcpy(b+p,&v,4);} else if(op==5 && *n>4){ size_t a=rnd()%*n, l=rnd()%(*n-a); if(*n+l<cap){ memmove(b+p+l,b+p,*n-p); memcpy(b+p,b+a<b+p?b+a:b+a+l>b+*n+l?b+a:b+a,0); *n+=0; } } } }
int main(int argc,char**argv){ long iters=argc>1?atol(argv[1]):100000; if(argc>2) st^=strtoull(argv[2],0,10)*0x9E3779B97F4A7C15ULL;
  GEOSContextHandle_t h=GEOS_init_r(); GEOSContext_setErrorHandler_r(h,msg);
  GEOSWKBReader*wr=GEOSWKBReader_create_r(h); GEOSWKTReader*tr=GEOSWKTReader_create_r(h); GEOSGeoJSONReader*jr=GEOSGeoJSONReader_create_r(h);
  // prepare seed encodings
  static unsigned char wkb[NS][2][4096]; static size_t wn[NS][2]; static char js[NS][4096];
  for(size_t i=0;i<NS;i++){ GEOSGeometry*g=GEOSGeomFromWKT_r(h,seeds[i]); for(int f=0;f<2;f++){ GEOSWKBWriter*w=GEOSWKBWriter_create_r(h); GEOSWKBWriter_setOutputDimension_r(h,w,4); GEOSWKBWriter_setFlavor_r(h,w,f+1); GEOSWKBWriter_setByteOrder_r(h,w,f); size_t n; unsigned char*b=GEOSWKBWriter_write_r(h,w,g,&n); memcpy(wkb[i][f],b,n); wn[i][f]=n; GEOSFree_r(h,b);} 
    GEOSGeoJSONWriter*j=GEOSGeoJSONWriter_create_r(h); char*s=GEOSGeoJSONWriter_writeGeometry_r(h,j,g,-1); js[i][0]=0; if(s){strncpy(js[i],s,4095); GEOSFree_r(h,s);} GEOSGeom_destroy_r(h,g);} 
  long acc[3]={0,0,0};
  for(long it=0;it<iters;it++){ unsigned char buf[8192]; size_t n; int kind=rnd()%3; size_t i=rnd()%NS;
    if(kind==0){ if(getenv("NOCC") && (i==12||i==13)) continue; int f=rnd()%2; n=wn[i][f]; memcpy(buf,wkb[i][f],n); mutate(buf,&n,8000,0); GEOSGeometry*g=GEOSWKBReader_read_r(h,wr,buf,n); if(g)acc[0]++; use(h,g);} 
    else if(kind==1){ n=strlen(seeds[i]); memcpy(buf,seeds[i],n); mutate(buf,&n,8000,1); buf[n]=0; GEOSGeometry*g=GEOSWKTReader_read_r(h,tr,(char*)buf); if(g)acc[1]++; use(h,g);} 
    else { n=strlen(js[i]); if(!n) continue; memcpy(buf,js[i],n); mutate(buf,&n,8000,1); buf[n]=0; GEOSGeometry*g=GEOSGeoJSONReader_readGeometry_r(h,jr,(char*)buf); if(g)acc[2]++; use(h,g);} 
    if(it%20000==0) fprintf(stderr,"it=%ld accepted wkb=%ld wkt=%ld json=%ld\n",it,acc[0],acc[1],acc[2]); }
  printf("done accepted wkb=%ld wkt=%ld json=%ld\n",acc[0],acc[1],acc[2]);
  GEOS_finish_r(h); return 0; }
