#!/usr/bin/env python3
# throwaway feasibility probe: clang JSON AST -> Gallina (shallow), tiny subset
import json, sys, subprocess

def load(src, flt):
    out = subprocess.run(['clang++', '-std=c++17', '-I', 'include', '-I', '_build/include', '-I', '_build/capi',
                          '-fsyntax-only', '-Xclang', '-ast-dump=json', '-Xclang', '-ast-dump-filter=' + flt, src],
                         capture_output=True, text=True, cwd='/repo').stdout
    dec = json.JSONDecoder(); i = 0; docs = []
    while i < len(out):
        while i < len(out) and out[i].isspace(): i += 1
        if i >= len(out): break
        o, j = dec.raw_decode(out, i); docs.append(o); i = j
    want = flt.split('::')[-1]
    for d in docs:
        if d.get('name') == want and any(c.get('kind') == 'CompoundStmt' for c in d.get('inner', [])):
            return d
    raise SystemExit('no definition for ' + flt)

class Unsupported(Exception): pass

BINOP = {'+': 'add', '-': 'sub', '*': 'mul', '<': 'ltb', '<=': 'leb', '>': 'gtb', '>=': 'geb', '==': 'eqb', '!=': 'neb'}

class Tr:
    def __init__(self, fn):
        self.fn = fn
        self.params = [c for c in fn['inner'] if c['kind'] == 'ParmVarDecl']
        self.body = [c for c in fn['inner'] if c['kind'] == 'CompoundStmt'][0]
        self.isvoid = fn['type']['qualType'].startswith('void')
        self.uses_this = False

    def ty(self, n): return n.get('type', {}).get('qualType', '')
    def isdouble(self, n): return 'double' in self.ty(n)
    def isbool(self, n): return self.ty(n) == 'bool'

    def expr(self, n):
        k = n['kind']
        if k in ('ImplicitCastExpr', 'ParenExpr', 'ExprWithCleanups', 'MaterializeTemporaryExpr', 'CXXFunctionalCastExpr', 'CStyleCastExpr', 'CXXStaticCastExpr', 'ConstantExpr'):
            inner = self.expr(n['inner'][0])
            ck = n.get('castKind')
            if ck == 'IntegralToFloating': return '(ofZ %s)' % inner
            if ck == 'IntegralToBoolean': return '(negb (Z.eqb %s 0))' % inner
            return inner
        if k == 'DeclRefExpr':
            rd = n['referencedDecl']
            if rd['kind'] == 'EnumConstantDecl': return 'E_' + rd['name']
            return rd['name']
        if k == 'MemberExpr':
            base = n['inner'][0]
            if base['kind'] == 'CXXThisExpr':
                self.uses_this = True
                return '(f_%s st)' % n['name']
            return '(f_%s %s)' % (n['name'], self.expr(base))
        if k == 'CXXBoolLiteralExpr': return 'true' if n['value'] else 'false'
        if k == 'IntegerLiteral': return '(%s)%%Z' % n['value']
        if k == 'FloatingLiteral': return '(lit "%s")' % n['value']
        if k == 'UnaryOperator':
            op = n['opcode']; a = self.expr(n['inner'][0])
            if op == '!': return '(negb %s)' % a
            if op == '-': return ('(neg %s)' if self.isdouble(n) else '(Z.opp %s)') % a
            raise Unsupported('unary ' + op)
        if k == 'BinaryOperator':
            op = n['opcode']; a, b = n['inner']
            if op == '&&': return '(andb %s %s)' % (self.expr(a), self.expr(b))  # pure operands only
            if op == '||': return '(orb %s %s)' % (self.expr(a), self.expr(b))
            dbl = self.isdouble(a) or self.isdouble(b)
            if op in BINOP:
                f = BINOP[op]
                if dbl: return '(%s %s %s)' % (f, self.expr(a), self.expr(b))
                zf = {'add': 'Z.add', 'sub': 'Z.sub', 'mul': 'Z.mul', 'ltb': 'Z.ltb', 'leb': 'Z.leb', 'gtb': 'Z.gtb', 'geb': 'Z.geb', 'eqb': 'Z.eqb', 'neb': 'zneb'}[f]
                if self.isbool(a) and op in ('==', '!='):
                    return '(%s %s %s)' % ('Bool.eqb' if op == '==' else 'xorb', self.expr(a), self.expr(b))
                return '(%s %s %s)' % (zf, self.expr(a), self.expr(b))
            raise Unsupported('binop ' + op)
        if k == 'ConditionalOperator':
            c, a, b = n['inner']
            return '(if %s then %s else %s)' % (self.expr(c), self.expr(a), self.expr(b))
        if k == 'CXXMemberCallExpr':
            callee = n['inner'][0]
            base = callee['inner'][0]
            args = ' '.join(self.expr(a) for a in n['inner'][1:])
            return '(m_%s %s %s)' % (callee['name'], self.expr(base) if base['kind'] != 'CXXThisExpr' else 'st', args)
        if k == 'CallExpr':
            callee = n['inner'][0]
            while callee['kind'] == 'ImplicitCastExpr': callee = callee['inner'][0]
            name = callee.get('referencedDecl', {}).get('name') or callee.get('name')
            args = ' '.join(self.expr(a) for a in n['inner'][1:])
            return '(c_%s %s)' % (name, args)
        raise Unsupported(k)

    # statements with continuation k : () -> str ; env unused (shadowing lets)
    def ret(self, e=None):
        if self.isvoid: return 'st'
        return e

    def stmts(self, lst, k):
        if not lst: return k()
        s, rest = lst[0], lst[1:]
        cont = lambda: self.stmts(rest, k)
        kind = s['kind']
        if kind == 'CompoundStmt': return self.stmts(s.get('inner', []) + rest, k)
        if kind == 'ReturnStmt':
            return self.ret(self.expr(s['inner'][0]) if s.get('inner') else None)
        if kind == 'DeclStmt':
            out = None
            decls = s['inner']
            def go(i):
                if i == len(decls): return cont()
                v = decls[i]
                init = self.expr(v['inner'][0]) if v.get('inner') else 'dflt'
                return '(let %s := %s in\n %s)' % (v['name'], init, go(i + 1))
            return go(0)
        if kind == 'IfStmt':
            inner = s['inner']; c = self.expr(inner[0]); a = inner[1]; b = inner[2] if len(inner) > 2 else None
            ta = self.stmts([a], cont)
            tb = self.stmts([b], cont) if b else cont()
            return '(if %s then\n %s\n else\n %s)' % (c, ta, tb)
        if kind == 'BinaryOperator' and s['opcode'] == '=':
            lhs, rhs = s['inner']
            e = self.expr(rhs)
            if lhs['kind'] == 'MemberExpr' and lhs['inner'][0]['kind'] == 'CXXThisExpr':
                self.uses_this = True
                return '(let st := set_%s st %s in\n %s)' % (lhs['name'], e, cont())
            if lhs['kind'] == 'DeclRefExpr':
                return '(let %s := %s in\n %s)' % (lhs['referencedDecl']['name'], e, cont())
            raise Unsupported('assign to ' + lhs['kind'])
        if kind == 'UnaryOperator' and s['opcode'] in ('++', '--'):
            tgt = s['inner'][0]; d = '1' if s['opcode'] == '++' else '(-1)'
            if tgt['kind'] == 'MemberExpr' and tgt['inner'][0]['kind'] == 'CXXThisExpr':
                self.uses_this = True
                return '(let st := set_%s st (Z.add (f_%s st) %s) in\n %s)' % (tgt['name'], tgt['name'], d, cont())
            return '(let %s := Z.add %s %s in\n %s)' % (tgt['referencedDecl']['name'], tgt['referencedDecl']['name'], d, cont())
        if kind == 'SwitchStmt':
            scrut = self.expr(s['inner'][0]); body = s['inner'][1].get('inner', [])
            # split into cases: list of (labels, stmts)
            cases = []; cur = None
            def flat(cs):
                labels = []
                while cs['kind'] in ('CaseStmt', 'DefaultStmt'):
                    if cs['kind'] == 'CaseStmt':
                        labels.append(self.expr(cs['inner'][0])); cs = cs['inner'][1]
                    else:
                        labels.append(None); cs = cs['inner'][0]
                return labels, cs
            for st in body:
                if st['kind'] in ('CaseStmt', 'DefaultStmt'):
                    labels, first = flat(st); cur = [labels, [first]]; cases.append(cur)
                else:
                    cur[1].append(st)
            def case_body(i):
                # fallthrough: concatenate following cases until break/return
                acc = []
                for j in range(i, len(cases)):
                    for st in cases[j][1]:
                        if st['kind'] == 'BreakStmt': return self.stmts(acc, cont)
                        acc.append(st)
                        if st['kind'] == 'ReturnStmt': return self.stmts(acc, cont)
                return self.stmts(acc, cont)
            def chain(i):
                if i == len(cases): return cont()
                labels = cases[i][0]
                if None in labels: return case_body(i)
                cond = ' || '.join('(Z.eqb %s %s)' % (scrut, l) for l in labels)
                return '(if (%s)%%bool then\n %s\n else\n %s)' % (cond, case_body(i), chain(i + 1))
            return chain(0)
        if kind == 'NullStmt': return cont()
        raise Unsupported('stmt ' + kind)

    def run(self, gname):
        body = self.stmts([self.body], lambda: self.ret('dflt'))
        ps = ' '.join('(%s : _)' % p['name'] for p in self.params)
        st = '(st : _) ' if (self.uses_this or self.isvoid) else ''
        return 'Definition %s %s%s :=\n %s.\n' % (gname, st, ps, body)

if __name__ == '__main__':
    src, flt, gname = sys.argv[1:4]
    fn = load(src, flt)
    print('(* generated from %s :: %s *)' % (src, flt))
    print(Tr(fn).run(gname))
