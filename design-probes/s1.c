#include <stdlib.h>
#include <stdio.h>
#include <stdarg.h>
#include <geos_c.h>
static void msg(const char*f,...){va_list a;va_start(a,f);vfprintf(stderr,f,a);va_end(a);fputc('\n',stderr);}
static void cb(void*item,void*ud){(void)item;(*(int*)ud)++;}
int main(int argc,char**argv){ int cap=atoi(argv[1]);
  GEOSContextHandle_t h=GEOS_init_r(); GEOSContext_setErrorHandler_r(h,msg);
  GEOSSTRtree*t=GEOSSTRtree_create_r(h,cap); printf("create(%d) -> %p\n",cap,(void*)t); if(!t) return 0;
  GEOSGeometry*g[3]; for(int i=0;i<3;i++){ g[i]=GEOSGeom_createPointFromXY_r(h,i,0); GEOSSTRtree_insert_r(h,t,g[i],g[i]); }
  int n=0; GEOSSTRtree_query_r(h,t,g[0],cb,&n); printf("hits=%d\n",n);
  GEOS_finish_r(h);return 0;}
