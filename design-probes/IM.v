From Coq Require Import ZArith List Bool Lia.
Import ListNotations.
Local Open Scope Z_scope.
(* dims: -1 = F, 0,1,2 *)
Definition dims := [-1;0;1;2].
Record im := { ii:Z; ib:Z; ie:Z; bi:Z; bb:Z; be:Z; ei:Z; eb:Z; ee:Z }.
Definition all_im : list im :=
  flat_map (fun a => flat_map (fun b => flat_map (fun c => flat_map (fun d => flat_map (fun e =>
  flat_map (fun f => flat_map (fun g => flat_map (fun h => map (fun i =>
    Build_im a b c d e f g h i) dims) dims) dims) dims) dims) dims) dims) dims) dims.
Definition T (x:Z) := 0 <=? x.
Definition F (x:Z) := x =? -1.
Definition isCovers m := (T (ii m) || T (ib m) || T (bi m) || T (bb m)) && F (ei m) && F (eb m).
Definition isCoveredBy m := (T (ii m) || T (ib m) || T (bi m) || T (bb m)) && F (ie m) && F (be m).
Definition transpose m := Build_im (ii m) (bi m) (ei m) (ib m) (bb m) (eb m) (ie m) (be m) (ee m).

Lemma cov_transpose_fin : forallb (fun m => Bool.eqb (isCoveredBy (transpose m)) (isCovers m)) all_im = true.
Proof. vm_compute. reflexivity. Qed.
