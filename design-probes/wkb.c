#include <stdio.h>
#include <stdlib.h>
#include <string.h>
#include <stdarg.h>
#include <stdint.h>
#include <geos_c.h>
static void msg(const char*f,...){va_list a;va_start(a,f);vfprintf(stderr,f,a);va_end(a);fputc('\n',stderr);}
static void hex(const unsigned char*b,size_t n){for(size_t i=0;i<n;i++)printf("%02X",b[i]);printf("\n");}
int main(){ setvbuf(stdout,0,_IONBF,0);
  GEOSContextHandle_t h=GEOS_init_r(); GEOSContext_setErrorHandler_r(h,msg);
  // point with signalling NaN payload in Z, -0.0 in x
  uint64_t bits[3]={0x8000000000000000ULL,0x7FF0000000000001ULL,0x7FF8000000000123ULL}; double v[3]; memcpy(v,bits,24);
  GEOSCoordSequence*cs=GEOSCoordSeq_create_r(h,1,3); GEOSCoordSeq_setXYZ_r(h,cs,0,v[0],v[1],v[2]);
  GEOSGeometry*p=GEOSGeom_createPoint_r(h,cs);
  GEOSWKBWriter*w=GEOSWKBWriter_create_r(h); GEOSWKBWriter_setOutputDimension_r(h,w,4);
  size_t n; unsigned char*b=GEOSWKBWriter_write_r(h,w,p,&n); hex(b,n);
  GEOSWKBReader*r=GEOSWKBReader_create_r(h); GEOSGeometry*q=GEOSWKBReader_read_r(h,r,b,n);
  unsigned char*b2=GEOSWKBWriter_write_r(h,w,q,&n); hex(b2,n);
  // empty point Z inside collection
  GEOSGeometry*g=GEOSGeomFromWKT_r(h,"GEOMETRYCOLLECTION Z(POINT Z EMPTY, LINESTRING Z EMPTY, POLYGON Z EMPTY, POINT Z(1 2 3))");
  for(int fl=1;fl<=2;fl++){ GEOSWKBWriter_setFlavor_r(h,w,fl); b=GEOSWKBWriter_write_r(h,w,g,&n); hex(b,n); q=GEOSWKBReader_read_r(h,r,b,n); GEOSWKTWriter*ww=GEOSWKTWriter_create_r(h); GEOSWKTWriter_setOutputDimension_r(h,ww,4); GEOSWKTWriter_setTrim_r(h,ww,1); printf("%s\n",GEOSWKTWriter_write_r(h,ww,q)); }
  GEOS_finish_r(h);return 0;}
