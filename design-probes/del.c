#include <stdio.h>
#include <stdlib.h>
#include <stdarg.h>
#include <geos_c.h>
static void msg(const char*f,...){va_list a;va_start(a,f);vfprintf(stderr,f,a);va_end(a);fputc('\n',stderr);}
int main(int argc,char**argv){
  GEOSContextHandle_t h=GEOS_init_r(); GEOSContext_setErrorHandler_r(h,msg);
  GEOSGeometry*g=GEOSGeomFromWKT_r(h,argv[1]);
  GEOSGeometry*t=GEOSDelaunayTriangulation_r(h,g,0.0,0);
  GEOSWKTWriter*w=GEOSWKTWriter_create_r(h); GEOSWKTWriter_setTrim_r(h,w,1); char*s=GEOSWKTWriter_write_r(h,w,t); printf("%s\n",s);
  GEOS_finish_r(h);return 0;}
