#include <string.h>
#include <stdio.h>
#include <stdarg.h>
#include <geos_c.h>
static void msg(const char*f,...){va_list a;va_start(a,f);vfprintf(stderr,f,a);va_end(a);fputc('\n',stderr);}
int main(){ GEOSContextHandle_t h=GEOS_init_r(); GEOSContext_setErrorHandler_r(h,msg);
  const char*hex[]={"01090000000200000001020000000000000001020000000200000000000000000000000000000000000000000000000000F03F000000000000F03F",
                    "0109000000020000000102000000020000000000000000000000000000000000000000000000000000F03F000000000000F03F010200000000000000"};
  for(int i=0;i<2;i++){ fprintf(stderr,"case %d\n",i); GEOSGeometry*g=GEOSGeomFromHEX_buf_r(h,(const unsigned char*)hex[i],strlen(hex[i])); fprintf(stderr," -> %p\n",(void*)g); }
  GEOSGeometry*w=GEOSGeomFromWKT_r(h,"COMPOUNDCURVE(EMPTY,(0 0,1 1))"); fprintf(stderr,"wkt -> %p\n",(void*)w);
  w=GEOSGeomFromWKT_r(h,"COMPOUNDCURVE((0 0,1 1),EMPTY)"); fprintf(stderr,"wkt2 -> %p\n",(void*)w);
  GEOS_finish_r(h); return 0;}
