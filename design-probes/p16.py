from g import *
import random, re, sys
from fractions import Fraction as Fr
dela=F('GEOSDelaunayTriangulation_r',P,P,ctypes.c_double,ctypes.c_int)
hull=un('GEOSConvexHull_r'); area=dbl('GEOSArea_r')
def orient(a,b,c): return (b[0]-a[0])*(c[1]-a[1])-(b[1]-a[1])*(c[0]-a[0])
def incircle(a,b,c,d):
    m=[[p[0]-d[0],p[1]-d[1],(p[0]-d[0])**2+(p[1]-d[1])**2] for p in (a,b,c)]
    return (m[0][0]*(m[1][1]*m[2][2]-m[1][2]*m[2][1])-m[0][1]*(m[1][0]*m[2][2]-m[1][2]*m[2][0])+m[0][2]*(m[1][0]*m[2][1]-m[1][1]*m[2][0]))
R=random.Random(int(sys.argv[1])); bad=0
for trial in range(int(sys.argv[2])):
    mode=R.random(); mag=R.choice([4,8,30,1000,2**20,2**25])
    k=R.randint(3,12)
    if mode<0.3: # lattice circle / rectangle points (cocircular)
        a,bq=R.randint(1,mag),R.randint(1,mag); cx,cy=R.randint(-mag,mag),R.randint(-mag,mag)
        cand=[(cx+a,cy+bq),(cx-a,cy+bq),(cx+a,cy-bq),(cx-a,cy-bq),(cx+bq,cy+a),(cx-bq,cy+a),(cx+bq,cy-a),(cx-bq,cy-a)]
        pts=R.sample(cand,R.randint(4,8))+[(cx,cy)]*R.randint(0,1)
    elif mode<0.5: # thin: near-collinear
        dx,dy=R.randint(1,max(1,mag//k)),R.randint(1,max(1,mag//k))
        pts=[(i*dx+R.choice([0,0,1,-1]),i*dy+R.choice([0,0,1,-1])) for i in range(k)]
    else:
        pts=[(R.randint(-mag,mag),R.randint(-mag,mag)) for _ in range(k)]
    if R.random()<0.2: pts.append(pts[0])
    wkt_in="MULTIPOINT(%s)"%",".join("(%d %d)"%p for p in pts)
    g=G(wkt_in); t=dela(g,0.0,0)
    if not t: bad+=1; print("NULL",wkt_in,ERR[-1:]); continue
    out=wkt(t); tris=re.findall(r'POLYGON \(\(([^)]*)\)\)',out)
    S=set(pts); tot=0
    for tr in tris:
        vs=[tuple(int(float(x)) for x in p.split()) for p in tr.split(',')][:3]
        o=orient(*vs)
        if o==0: bad+=1; print("DEGENERATE",wkt_in,vs)
        if o<0: vs=[vs[0],vs[2],vs[1]]
        tot+=abs(o)
        for v in vs:
            if v not in S: bad+=1; print("NONSITE",wkt_in,v)
        for p in S:
            if p in vs: continue
            if incircle(vs[0],vs[1],vs[2],p)>0: bad+=1; print("NOTDELAUNAY mag",mag,wkt_in,vs,p,incircle(vs[0],vs[1],vs[2],p)); break
    # hull area (exact shoelace on hull wkt)
    hw=wkt(hull(g)); m=re.findall(r'POLYGON \(\(([^)]*)\)\)',hw)
    ha=0
    if m:
        hv=[tuple(int(float(x)) for x in p.split()) for p in m[0].split(',')]
        ha=abs(sum(hv[i][0]*hv[i+1][1]-hv[i+1][0]*hv[i][1] for i in range(len(hv)-1)))
    if ha!=tot: bad+=1; print("AREA",wkt_in,"hull2",ha,"tris2",tot)
print("bad",bad)
