#include <geos/index/strtree/TemplateSTRtree.h>
#include <geos/geom/Envelope.h>
#include <cstdio>
#include <random>
using namespace geos::index::strtree; using geos::geom::Envelope;
struct T : public TemplateSTRtree<int, EnvelopeTraits> {
  using TemplateSTRtree<int, EnvelopeTraits>::TemplateSTRtree;
  size_t ts(size_t n){ return treeSize(n);} size_t nn(){ return nodes.size(); } size_t cap(){return nodes.capacity();}
  size_t sc(size_t n){ return sliceCount(n);} 
};
int main(){ std::mt19937 rng(1); long bad=0, tot=0;
  for(size_t cap=2;cap<=33;cap++) for(size_t n=0;n<=1500;n++){ T t(cap); std::uniform_int_distribution<int> d(0,50);
    for(size_t i=0;i<n;i++){ double x=d(rng),y=d(rng); t.insert(Envelope(x,x+d(rng)%3,y,y+d(rng)%3),(int)i);} 
    size_t want=t.ts(n); t.build(); tot++; if(n>0 && t.nn()!=want){ bad++; if(bad<10) printf("cap=%zu n=%zu treeSize=%zu actual=%zu\n",cap,n,want,t.nn()); }
    // query check vs brute force for a few
  }
  printf("checked=%ld mismatches=%ld\n",tot,bad); }
