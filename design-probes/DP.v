From Coq Require Import ZArith List Lia Bool Arith.
Import ListNotations.

(* abstract: pts indexed by nat; dist2 i j k = squared distance of pts[k] to segment (pts[i],pts[j]) scaled; tol2 *)
Section DP.
Variable far : nat -> nat -> nat -> bool.   (* far i j k = true iff dist(pts k, seg(pts i, pts j)) > tol *)
Variable argmax : nat -> nat -> nat.          (* index of the farthest interior point of section (i,j) *)
Hypothesis argmax_in : forall i j, i + 1 < j -> i < argmax i j < j.
Hypothesis argmax_far : forall i j k, i < k < j -> far i j k = true -> far i j (argmax i j) = true.

(* kept i j fuel : list of kept indices strictly between i and j *)
Fixpoint kept (fuel i j : nat) : list nat :=
  match fuel with O => [] | S f =>
    if j <=? i + 1 then []
    else let m := argmax i j in
      if far i j m then kept f i m ++ [m] ++ kept f m j else []
  end.

(* specification: k is "covered" by consecutive kept indices a<b of the result with k within tol of seg(a,b) *)
Inductive covered (i j : nat) : list nat -> nat -> Prop :=
| cov_nil k : i < k < j -> far i j k = false -> covered i j [] k
| cov_left m l1 l2 k : covered i m l1 k -> covered i j (l1 ++ [m] ++ l2) k
| cov_right m l1 l2 k : covered m j l2 k -> covered i j (l1 ++ [m] ++ l2) k.

Theorem dp_within_tol : forall fuel i j k, j - i <= fuel -> i < k < j ->
  In k (kept fuel i j) \/ covered i j (kept fuel i j) k.
Proof.
  induction fuel as [|f IH]; intros i j k Hf Hk; [lia|].
  cbn [kept]. destruct (Nat.leb_spec j (i+1)) as [Hle|Hgt]; [lia|].
  pose proof (argmax_in i j Hgt) as Hm. set (m := argmax i j) in *.
  destruct (far i j m) eqn:Efar.
  - destruct (Nat.lt_trichotomy k m) as [Hlt|[Heq|Hgtm]].
    + destruct (IH i m k) as [Hin|Hcov]; [lia|lia| |].
      * left. apply in_or_app. left. exact Hin.
      * right. apply cov_left. exact Hcov.
    + left. subst k. apply in_or_app. right. left. reflexivity.
    + destruct (IH m j k) as [Hin|Hcov]; [lia|lia| |].
      * left. apply in_or_app. right. right. exact Hin.
      * right. apply cov_right. exact Hcov.
  - right. apply cov_nil; [exact Hk|].
    destruct (far i j k) eqn:Ek; [|reflexivity].
    pose proof (argmax_far i j k Hk Ek) as Hc. fold m in Hc. rewrite Hc in Efar. discriminate.
Qed.

Lemma kept_sorted_between : forall fuel i j x, In x (kept fuel i j) -> i < x < j.
Proof.
  induction fuel as [|f IH]; intros i j x Hin; cbn [kept] in Hin; [destruct Hin|].
  destruct (Nat.leb_spec j (i+1)) as [Hle|Hgt]; [destruct Hin|].
  pose proof (argmax_in i j Hgt) as Hm. set (m := argmax i j) in *.
  destruct (far i j m); [|destruct Hin].
  apply in_app_or in Hin as [Hin|Hin]; [apply IH in Hin; lia|].
  destruct Hin as [<-|Hin]; [lia|]. apply IH in Hin; lia.
Qed.
End DP.
Print Assumptions dp_within_tol.
