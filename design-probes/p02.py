from g import *
import random, math, sys
rel=F('GEOSRelate_r',ctypes.c_void_p,P,P); relpat=F('GEOSRelatePattern_r',ctypes.c_char,P,P,ctypes.c_char_p)
names=['Intersects','Disjoint','Touches','Crosses','Within','Contains','Overlaps','Equals','Covers','CoveredBy']
preds={n:F('GEOS'+n+'_r',ctypes.c_char,P,P) for n in names}
prep=F('GEOSPrepare_r',P,P)
pnames=['Intersects','Disjoint','Touches','Crosses','Within','Contains','Overlaps','Covers','CoveredBy','ContainsProperly']
ppreds={n:F('GEOSPrepared'+n+'_r',ctypes.c_char,P,P) for n in pnames}
prel=F('GEOSPreparedRelate_r',ctypes.c_void_p,P,P)
dim=F('GEOSGeom_getDimensions_r',ctypes.c_int,P); isvalid=F('GEOSisValid_r',ctypes.c_char,P); isempty=F('GEOSisEmpty_r',ctypes.c_char,P)
def b(x): return x[0] if isinstance(x,bytes) else x
def T(c): return c in '012'
def defs(m,dA,dB):
    II,IB,IE,BI,BB,BE,EI,EB,EE=m
    r={}
    r['Disjoint']= II=='F' and IB=='F' and BI=='F' and BB=='F'
    r['Intersects']= not r['Disjoint']
    r['Within']= T(II) and IE=='F' and BE=='F'
    r['Contains']= T(II) and EI=='F' and EB=='F'
    r['Covers']= (T(II) or T(IB) or T(BI) or T(BB)) and EI=='F' and EB=='F'
    r['CoveredBy']= (T(II) or T(IB) or T(BI) or T(BB)) and IE=='F' and BE=='F'
    r['Equals']= dA==dB and T(II) and IE=='F' and BE=='F' and EI=='F' and EB=='F'
    r['ContainsProperly']= T(II) and IB=='F' and IE=='F'and False  # placeholder
    def touches(dA,dB):
        if dA>dB: dA,dB=dB,dA
        if (dA,dB) in [(2,2),(1,1),(1,2),(0,2),(0,1)]: return II=='F' and (T(IB) or T(BI) or T(BB))
        return False
    r['Touches']=touches(dA,dB)
    if (dA,dB) in [(0,1),(0,2),(1,2)]: r['Crosses']= T(II) and T(IE)
    elif (dA,dB) in [(1,0),(2,0),(2,1)]: r['Crosses']= T(II) and T(EI)
    elif (dA,dB)==(1,1): r['Crosses']= II=='0'
    else: r['Crosses']=False
    if (dA,dB) in [(0,0),(2,2)]: r['Overlaps']= T(II) and T(IE) and T(EI)
    elif (dA,dB)==(1,1): r['Overlaps']= II=='1' and T(IE) and T(EI)
    else: r['Overlaps']=False
    return r
def rp(R): return "%d %d"%(R.randint(0,6),R.randint(0,6))
def poly(R):
    cx,cy=R.randint(1,5),R.randint(1,5); k=R.randint(3,6); pts=[]
    angs=sorted(R.sample(range(16),k))
    dirs=[(4,0),(4,1),(3,3),(1,4),(0,4),(-1,4),(-3,3),(-4,1),(-4,0),(-4,-1),(-3,-3),(-1,-4),(0,-4),(1,-4),(3,-3),(4,-1)]
    sc=R.choice([1,1,2])
    for a in angs:
        dx,dy=dirs[a]; s=R.choice([1,1,2])/2
        pts.append((cx+int(dx*s*sc/2),cy+int(dy*s*sc/2)))
    pts.append(pts[0]); return "POLYGON((%s))"%",".join("%d %d"%p for p in pts)
def geom(R):
    t=R.random()
    if t<0.2: return "POINT(%s)"%rp(R)
    if t<0.3: return "MULTIPOINT(%s)"%",".join("(%s)"%rp(R) for _ in range(R.randint(1,3)))
    if t<0.55: return "LINESTRING(%s)"%",".join(rp(R) for _ in range(R.randint(2,4)))
    if t<0.65: return "MULTILINESTRING(%s)"%",".join("(%s)"%",".join(rp(R) for _ in range(R.randint(2,3))) for _ in range(2))
    return poly(R)
R=random.Random(int(sys.argv[1]) if len(sys.argv)>1 else 1)
bad=0;n=0;tried=0
while n<int(sys.argv[2]) if len(sys.argv)>2 else n<3000:
    tried+=1
    wa,wb=geom(R),geom(R)
    try: A,B=G(wa),G(wb)
    except Exception as e: continue
    if not b(isvalid(A)) or not b(isvalid(B)): continue
    n+=1
    p=rel(A,B); m=ctypes.string_at(p).decode(); p2=rel(B,A); mt=ctypes.string_at(p2).decode()
    tr=m[0]+m[3]+m[6]+m[1]+m[4]+m[7]+m[2]+m[5]+m[8]
    if tr!=mt: bad+=1; print("TRANSPOSE",wa,wb,m,mt)
    d=defs(m,dim(A),dim(B))
    PA=prep(A)
    pm=ctypes.string_at(prel(PA,B)).decode()
    if pm!=m: bad+=1; print("PREPREL",wa,wb,m,pm)
    for nme in names:
        v=b(preds[nme](A,B))
        if v!=int(d[nme]): bad+=1; print("PRED",nme,wa,wb,m,v,d[nme])
    for nme in pnames:
        if nme=='ContainsProperly': continue
        v=b(ppreds[nme](PA,B))
        if v!=int(d[nme]): bad+=1; print("PREP",nme,wa,wb,m,v,d[nme])
print("pairs",n,"tried",tried,"bad",bad)
