#include <stdio.h>
#include <stdlib.h>
#include <string.h>
#include <stdarg.h>
#include <math.h>
#include <geos_c.h>
static char last[256]; static int nerr=0;
static void msg(const char*f,...){va_list a;va_start(a,f);vsnprintf(last,256,f,a);va_end(a);nerr++;}
static long polls=0, target=-1;
static void cb(void){ polls++; if(polls==target) GEOS_interruptRequest(); }
static GEOSGeometry* star(GEOSContextHandle_t h,double cx,double cy,int n,double r){
  char*buf=malloc(64*n+64); char*p=buf; p+=sprintf(p,"POLYGON((");
  for(int i=0;i<=n;i++){ double a=2*M_PI*(i%n)/n; double rr=(i%2)?r:r*0.5; p+=sprintf(p,"%s%.6f %.6f",i?",":"",cx+rr*cos(a),cy+rr*sin(a)); }
  sprintf(p,"))"); GEOSGeometry*g=GEOSGeomFromWKT_r(h,buf); free(buf); return g; }
typedef GEOSGeometry* (*op_t)(GEOSContextHandle_t,const GEOSGeometry*,const GEOSGeometry*);
static GEOSGeometry* op_buffer(GEOSContextHandle_t h,const GEOSGeometry*a,const GEOSGeometry*b){(void)b;return GEOSBuffer_r(h,a,3.0,8);}
static GEOSGeometry* op_uu(GEOSContextHandle_t h,const GEOSGeometry*a,const GEOSGeometry*b){ GEOSGeometry*arr[2]={GEOSGeom_clone_r(h,a),GEOSGeom_clone_r(h,b)}; GEOSGeometry*c=GEOSGeom_createCollection_r(h,GEOS_GEOMETRYCOLLECTION,arr,2); GEOSGeometry*r=GEOSUnaryUnion_r(h,c); GEOSGeom_destroy_r(h,c); return r;}
static GEOSGeometry* op_hull(GEOSContextHandle_t h,const GEOSGeometry*a,const GEOSGeometry*b){(void)b;return GEOSConvexHull_r(h,a);}
static GEOSGeometry* op_mv(GEOSContextHandle_t h,const GEOSGeometry*a,const GEOSGeometry*b){(void)b;return GEOSMakeValid_r(h,a);}
static GEOSGeometry* op_pos(GEOSContextHandle_t h,const GEOSGeometry*a,const GEOSGeometry*b){(void)b;return GEOSPointOnSurface_r(h,a);}
static GEOSGeometry* op_node(GEOSContextHandle_t h,const GEOSGeometry*a,const GEOSGeometry*b){(void)b;GEOSGeometry*bd=GEOSBoundary_r(h,a); GEOSGeometry*r=GEOSNode_r(h,bd); GEOSGeom_destroy_r(h,bd); return r;}
static GEOSGeometry* op_polygonize(GEOSContextHandle_t h,const GEOSGeometry*a,const GEOSGeometry*b){ GEOSGeometry*u=GEOSUnion_r(h,GEOSBoundary_r(h,a),GEOSBoundary_r(h,b)); if(!u) return NULL; const GEOSGeometry*arr[1]={u}; GEOSGeometry*r=GEOSPolygonize_r(h,arr,1); GEOSGeom_destroy_r(h,u); return r;}
static GEOSGeometry* op_mic(GEOSContextHandle_t h,const GEOSGeometry*a,const GEOSGeometry*b){(void)b;return GEOSMaximumInscribedCircle_r(h,a,0.01);}
int main(int argc,char**argv){ setvbuf(stdout,0,_IONBF,0);
  GEOSContextHandle_t h=GEOS_init_r(); GEOSContext_setErrorHandler_r(h,msg);
  GEOS_interruptRegisterCallback(cb);
  GEOSGeometry*A=star(h,0,0,40,10), *B=star(h,3,2,36,9);
  struct {const char*n; op_t f;} ops[]={{"intersection",GEOSIntersection_r},{"union",GEOSUnion_r},{"difference",GEOSDifference_r},{"symdiff",GEOSSymDifference_r},{"buffer",op_buffer},{"unaryunion",op_uu},{"hull",op_hull},{"makevalid",op_mv},{"pointonsurface",op_pos},{"node",op_node},{"polygonize",op_polygonize},{"mic",op_mic}};
  int nops=sizeof(ops)/sizeof(ops[0]); int which=argc>1?atoi(argv[1]):-1;
  for(int o=0;o<nops;o++){ if(which>=0&&o!=which) continue;
    polls=0; target=-1; GEOSGeometry*ref=ops[o].f(h,A,B); long N=polls; if(!ref){printf("%s: baseline NULL %s\n",ops[o].n,last);continue;}
    int bad=0, aborted=0; long step = N>300? N/300:1;
    for(long k=1;k<=N;k+=step){ polls=0; target=k; nerr=0; last[0]=0; GEOSGeometry*r=ops[o].f(h,A,B); target=-1;
      if(r){ bad++; if(bad<4) printf("%s: k=%ld not interrupted (returned geometry)\n",ops[o].n,k); GEOSGeom_destroy_r(h,r);} else { aborted++; if(!strstr(last,"nterrupt")) {bad++; if(bad<4) printf("%s: k=%ld NULL but msg='%s'\n",ops[o].n,k,last);} }
      polls=0; GEOSGeometry*r2=ops[o].f(h,A,B); if(!r2 || GEOSEqualsExact_r(h,r2,ref,0.0)!=1){ bad++; if(bad<4) printf("%s: k=%ld rerun differs/NULL (%s)\n",ops[o].n,k,last);} if(r2)GEOSGeom_destroy_r(h,r2);
    }
    printf("%s: polls=%ld tested=%d aborted=%d anomalies=%d\n",ops[o].n,N,(int)((N+step-1)/step),aborted,bad);
    GEOSGeom_destroy_r(h,ref);
  }
  GEOSGeom_destroy_r(h,A); GEOSGeom_destroy_r(h,B);
  GEOS_interruptRegisterCallback(NULL);
  GEOS_finish_r(h);return 0;}
