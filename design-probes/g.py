import ctypes, os
L=ctypes.CDLL('/repo/_build/lib/libgeos_c.so')
L.GEOS_init_r.restype=ctypes.c_void_p
h=ctypes.c_void_p(L.GEOS_init_r())
ERR=[]
CB=ctypes.CFUNCTYPE(None,ctypes.c_char_p,ctypes.c_void_p)
def _e(m,u): ERR.append(m.decode())
_cb=CB(_e)
L.GEOSContext_setErrorMessageHandler_r(h,_cb,None)
def F(name,res,*args):
    f=getattr(L,name); f.restype=res; f.argtypes=[ctypes.c_void_p]+list(args); return lambda *a: f(h,*a)
P=ctypes.c_void_p
fromwkt=F('GEOSGeomFromWKT_r',P,ctypes.c_char_p)
wcreate=F('GEOSWKTWriter_create_r',P); wtrim=F('GEOSWKTWriter_setTrim_r',None,P,ctypes.c_char); wdim=F('GEOSWKTWriter_setOutputDimension_r',None,P,ctypes.c_int)
wwrite=F('GEOSWKTWriter_write_r',ctypes.c_void_p,P,P)
W=wcreate(); wtrim(W,1); wdim(W,4)
def wkt(g):
    if not g: return None
    p=wwrite(W,g); s=ctypes.string_at(p).decode(); return s
def G(s): 
    g=fromwkt(s.encode()); 
    if not g: raise Exception('bad wkt '+s+' '+str(ERR[-1:]))
    return g
def un(name): 
    f=F(name,P,P); return lambda g: f(g)
def bi(name):
    f=F(name,P,P,P); return lambda a,b: f(a,b)
def pred(name):
    f=F(name,ctypes.c_char,P,P); return lambda a,b: ord(f(a,b)) if isinstance(f(a,b),bytes) else f(a,b)
def upred(name):
    f=F(name,ctypes.c_char,P); return lambda a: f(a)
def dbl(name):
    f=F(name,ctypes.c_int,P,ctypes.POINTER(ctypes.c_double))
    def g(a):
        d=ctypes.c_double(); r=f(a,ctypes.byref(d)); return d.value if r==1 else None
    return g
def dbl2(name):
    f=F(name,ctypes.c_int,P,P,ctypes.POINTER(ctypes.c_double))
    def g(a,b):
        d=ctypes.c_double(); r=f(a,b,ctypes.byref(d)); return d.value if r==1 else None
    return g
