#!/usr/bin/env python3
"""cxx2gallina — clang JSON AST -> Gallina (shallow embedding) for small decision functions of /repo.

Tie (G) of DESIGN.md 2.4: the definitions under coq/theories/Gen are regenerated from /repo's current source on every
run, so the theorems proved about them are re-checked against what the code says now.

Conventions of the generated text (meanings are supplied by the hand-written prelude named in the unit):
  this-object        `st`               field read  (f_<field> st)      field write  (set_<field> st v)
  member call        (m_<name>_<nargs> obj args)      static / free call   (c_<name>_<nargs> args)
  enumerators        E_<Enum>_<name>    (value read from the AST, defined at the top of the generated file)
  int-like           Z                  bool  bool
  double             abstract ops  add sub mul div neg ltb leb gtb geb eqb neb ofZ  and literals (flit bits num den)
  char literal       (chr code)
  self recursion     open recursion on fuel:  <name>_fuel n, <name> := <name>_fuel K
Anything outside the subset raises Unsupported with the offending AST node kind.
"""
import hashlib, json, os, struct, subprocess, sys
from concurrent.futures import ThreadPoolExecutor
from fractions import Fraction

HERE = os.path.dirname(os.path.abspath(__file__))


class Unsupported(Exception):
    pass


def clang_docs(repo, builddir, src, flt):
    cmd = ['clang++', '-std=c++17', '-DUSE_UNSTABLE_GEOS_CPP_API', '-I', os.path.join(repo, 'include'), '-I', os.path.join(builddir, 'include'),
           '-I', os.path.join(builddir, 'capi'), '-I', os.path.join(repo, 'src/deps'), '-fsyntax-only', '-Xclang', '-ast-dump=json',
           '-Xclang', '-ast-dump-filter=' + flt, os.path.join(repo, src)]
    out = subprocess.run(cmd, capture_output=True, text=True, cwd=repo, timeout=300).stdout
    dec = json.JSONDecoder(); i = 0; docs = []
    while i < len(out):
        while i < len(out) and out[i].isspace():
            i += 1
        if i >= len(out):
            break
        o, j = dec.raw_decode(out, i); docs.append(o); i = j
    return docs


def find_def(docs, name, nparams=None, cls=None, instantiation=None, ptypes=None):
    cands = []
    if instantiation is not None:
        # member / function template: take the instantiation number `instantiation` (in AST order) of the template `name`;
        # instantiations are the children that carry TemplateArgument nodes (the first child is the dependent pattern)
        insts = []
        for d in docs:
            if d.get('kind') == 'FunctionTemplateDecl' and d.get('name') == name:
                for c in d.get('inner', []):
                    if c.get('kind') in ('CXXMethodDecl', 'FunctionDecl') and any(x.get('kind') == 'TemplateArgument' for x in c.get('inner', [])) \
                            and any(x.get('kind') == 'CompoundStmt' for x in c.get('inner', [])):
                        ps = [x for x in c['inner'] if x['kind'] == 'ParmVarDecl']
                        if nparams is None or len(ps) == nparams:
                            insts.append(c)
        if len(insts) <= instantiation:
            raise Unsupported('no instantiation %d of template %s/%s found' % (instantiation, name, nparams))
        return insts[instantiation]
    for d in docs:
        if d.get('name') != name or d.get('kind') not in ('CXXMethodDecl', 'FunctionDecl', 'CXXConstructorDecl'):
            continue
        if not any(c.get('kind') == 'CompoundStmt' for c in d.get('inner', [])):
            continue
        ps = [c for c in d.get('inner', []) if c['kind'] == 'ParmVarDecl']
        if nparams is not None and len(ps) != nparams:
            continue
        if ptypes is not None and not (len(ps) == len(ptypes) and all(pt in p.get('type', {}).get('qualType', '') for pt, p in zip(ptypes, ps))):
            continue
        cands.append(d)
    for d in docs:
        if d.get('name') == name and d.get('storageClass') == 'static' and cands:
            ps = [c for c in d.get('inner', []) if c['kind'] == 'ParmVarDecl']
            if nparams is None or len(ps) == nparams:
                cands[0]['storageClass'] = 'static'
    if not cands:
        raise Unsupported('no definition of %s/%s found' % (name, nparams))
    return cands[0]


BIN_D = {'+': 'add', '-': 'sub', '*': 'mul', '/': 'div', '<': 'ltb', '<=': 'leb', '>': 'gtb', '>=': 'geb', '==': 'eqb', '!=': 'neb'}
BIN_Z = {'+': 'Z.add', '-': 'Z.sub', '*': 'Z.mul', '/': 'Z.quot', '%': 'Z.rem', '<': 'Z.ltb', '<=': 'Z.leb', '>': 'Z.gtb', '>=': 'Z.geb',
         '==': 'Z.eqb', '!=': 'zneb', '&': 'Z.land', '|': 'Z.lor', '^': 'Z.lxor', '<<': 'Z.shiftl', '>>': 'Z.shiftr'}
TRANSPARENT = ('ImplicitCastExpr', 'ParenExpr', 'ExprWithCleanups', 'MaterializeTemporaryExpr', 'CXXFunctionalCastExpr', 'CStyleCastExpr',
               'CXXStaticCastExpr', 'ConstantExpr', 'CXXBindTemporaryExpr', 'CXXConstCastExpr')


def qt(n):
    t = n.get('type', {})
    return t.get('desugaredQualType') or t.get('qualType', '')


def is_double(n):
    q = qt(n).replace('const ', '').replace('&', '').strip()
    return q in ('double', 'float', 'long double')


def is_bool(n):
    return qt(n).replace('const ', '').strip() == 'bool'


INT_SUFFIX = {'unsigned char': 'u8', 'signed char': 'i8', 'char': 'i8', 'short': 'i16', 'unsigned short': 'u16', 'int': 'i32', 'unsigned int': 'u32',
              'long': 'i64', 'unsigned long': 'u64', 'long long': 'i64', 'unsigned long long': 'u64'}


def int_suffix(n):
    q = qt(n).replace('const ', '').replace('volatile ', '').strip()
    if q not in INT_SUFFIX:
        raise Unsupported('int_model: integral type %s' % q)
    return INT_SUFFIX[q]


def is_assert_expansion(s):
    while s['kind'] == 'ParenExpr':
        s = s['inner'][0]
    if s['kind'] != 'ConditionalOperator' or len(s.get('inner', [])) != 3:
        return False
    c = s['inner'][2]
    while c['kind'] in TRANSPARENT:
        c = c['inner'][0]
    if c['kind'] != 'CallExpr':
        return False
    f = c['inner'][0]
    while f['kind'] in TRANSPARENT:
        f = f['inner'][0]
    return (f.get('referencedDecl') or {}).get('name') == '__assert_fail'


class Tr:
    def __init__(self, fn, unit):
        self.fn, self.unit = fn, unit
        self.params = [c for c in fn['inner'] if c['kind'] == 'ParmVarDecl']
        self.body = [c for c in fn['inner'] if c['kind'] == 'CompoundStmt'][0]
        rt = fn['type']['qualType'].split('(')[0].strip()
        self.isvoid = rt == 'void'
        self.dflt = 'false' if rt == 'bool' else 'dzero' if rt in ('double', 'float') else '(0)%Z' if rt in ('int', 'long', 'size_t', 'std::size_t', 'unsigned int', 'char', 'uint32_t', 'int64_t', 'uint64_t', 'unsigned long') else 'dflt'
        self.static = fn.get('storageClass') == 'static' or fn['kind'] == 'FunctionDecl'
        self.uses_this = False
        self.enums = {}          # E_name -> None (value resolved later)
        self.selfname = fn['name']
        self.selfids = {fn.get('id'), fn.get('previousDecl')} - {None}
        self.locals = {p['name'] for p in self.params}
        self.consts = {}
        self.selfrec = False
        self.mutates = False

    # ------------------------------------------------------------ expressions
    def callname(self, kind, name, nargs):
        nm = name.replace('operator', 'op').replace('==', 'eq').replace('!=', 'ne').replace('[]', 'idx').replace('()', 'call')
        for sym, txt in (('<=', 'le'), ('>=', 'ge'), ('<', 'lt'), ('>', 'gt'), ('+', 'add'), ('-', 'sub'), ('*', 'mul'), ('/', 'div')):
            nm = nm.replace(sym, txt)       # arithmetic / ordering operators of class types (DD): c_opadd_2, c_oplt_2 ...
        return '%s_%s_%d' % (kind, nm, nargs)

    def expr(self, n):
        k = n['kind']
        if k in TRANSPARENT:
            inner = self.expr(n['inner'][0])
            ck = n.get('castKind')
            if ck == 'IntegralToFloating':
                return '(ofZ %s)' % inner
            if ck == 'FloatingToIntegral':
                return '(toZ %s)' % inner
            if ck == 'Dependent' and is_double(n) and not is_double(n['inner'][0]):
                return '(ofZ %s)' % inner          # static_cast<double>(x) on an `auto` variable inside a template pattern
            if ck == 'IntegralToBoolean':
                return '(negb (Z.eqb %s 0))' % inner
            if ck == 'PointerToBoolean':
                return '(isnonnull %s)' % inner      # C14 units: `if (callback)` on a function pointer held in the state
            if ck == 'FloatingToBoolean':
                raise Unsupported('FloatingToBoolean')
            if ck == 'IntegralCast' and is_bool(n['inner'][0]):
                return '(Z.b2z %s)' % inner
            if ck == 'IntegralCast' and self.unit.get('int_model'):
                # unit option int_model (C09): integral conversions are kept, (cast_<t> x) = x wrapped into the range of the
                # target type (two's complement); the prelude gives cast_u8 / cast_i32 / cast_u32 / cast_i64 / cast_u64 ...
                return '(cast_%s %s)' % (int_suffix(n), inner)
            return inner
        if k == 'DeclRefExpr':
            rd = n['referencedDecl']
            if rd['kind'] == 'EnumConstantDecl':
                et = rd.get('type', {}).get('qualType', '').split('::')[-1]
                nm = 'E_%s_%s' % (et, rd['name']) if et and ' ' not in et else 'E_' + rd['name']
                self.enums[nm] = rd
                return nm
            if rd['kind'] == 'VarDecl' and rd['name'] not in self.locals and rd['name'] in self.unit.get('globals', ()):
                self.uses_this = True            # unit option globals: writable file-scope variables live in the threaded state `st`
                return '(g_%s st)' % rd['name']
            if rd['kind'] == 'VarDecl' and rd['name'] not in self.locals and rd['name'] in self.unit.get('consts', {}):
                self.consts['g_' + rd['name']] = rd
                return 'g_' + rd['name']
            return 'v_' + rd['name']
        if k == 'MemberExpr':
            base = n['inner'][0]
            while base['kind'] in TRANSPARENT:
                base = base['inner'][0]
            if base['kind'] == 'CXXThisExpr':
                self.uses_this = True
                return '(f_%s st)' % n['name']
            return '(f_%s %s)' % (n['name'], self.expr(base))
        if k == 'CXXThisExpr':
            self.uses_this = True
            return 'st'
        if k == 'CXXBoolLiteralExpr':
            return 'true' if n['value'] else 'false'
        if k == 'IntegerLiteral':
            return '(%s)%%Z' % n['value']
        if k == 'CharacterLiteral':
            return '(chr %d)' % n['value']
        if k == 'FloatingLiteral':
            v = float(n['value'])
            bits = struct.unpack('>Q', struct.pack('>d', v))[0]
            fr = Fraction(v)
            txt = '(flit %d (%d) %d)' % (bits, fr.numerator, fr.denominator)
            if self.unit.get('named_literals'):
                # unit option named_literals: each floating literal becomes a definition lit_<k> of the generated file, so that
                # theorems can speak about the constant the source contains (e.g. an error-bound coefficient)
                lits = self.__dict__.setdefault('literals', [])
                if txt not in lits:
                    lits.append(txt)
                return 'lit_%d' % lits.index(txt)
            return txt
        if k == 'UnaryOperator':
            op = n['opcode']; a = n['inner'][0]
            if op == '!':
                return '(negb %s)' % self.expr(a)
            if op == '-':
                return ('(neg %s)' if is_double(n) else '(Z.opp %s)') % self.expr(a)
            if op == '+':
                return self.expr(a)
            if op == '*' or op == '&':
                return self.expr(a)       # pointers/references are transparent in the functional model
            raise Unsupported('unary ' + op)
        if k == 'BinaryOperator':
            op = n['opcode']; a, b = n['inner']
            if op == '&&':
                return '(andb %s %s)' % (self.expr(a), self.expr(b))
            if op == '||':
                return '(orb %s %s)' % (self.expr(a), self.expr(b))
            if op == ',':
                raise Unsupported('comma')
            dbl = is_double(a) or is_double(b)
            if dbl and op in BIN_D:
                return '(%s %s %s)' % (BIN_D[op], self.expr(a), self.expr(b))
            if is_bool(a) and is_bool(b) and op in ('==', '!='):
                return '(%s %s %s)' % ('Bool.eqb' if op == '==' else 'xorb', self.expr(a), self.expr(b))
            if op in ('<<', '+', '-', '*') and self.unit.get('int_model'):
                # unit option int_model: the result of an operation that can leave the range of its type is wrapped into it
                return '(cast_%s (%s %s %s))' % (int_suffix(n), BIN_Z[op], self.expr(a), self.expr(b))
            if op in BIN_Z:
                return '(%s %s %s)' % (BIN_Z[op], self.expr(a), self.expr(b))
            raise Unsupported('binop ' + op)
        if k == 'ConditionalOperator':
            c, a, b = n['inner']
            return '(if %s then %s else %s)' % (self.expr(c), self.expr(a), self.expr(b))
        if k == 'CXXMemberCallExpr':
            callee = n['inner'][0]
            while callee['kind'] in TRANSPARENT:
                callee = callee['inner'][0]
            base = callee['inner'][0]
            while base['kind'] in TRANSPARENT:
                base = base['inner'][0]
            args = [self.expr(a) for a in n['inner'][1:] if a['kind'] != 'CXXDefaultArgExpr']
            name = callee['name']
            if base['kind'] == 'CXXThisExpr':
                self.uses_this = True
                if name == self.selfname and len(args) == len(self.params):
                    if callee.get('referencedMemberDecl') in self.selfids:
                        self.selfrec = True
                        return '(self st %s)' % ' '.join(args)
                    return '(%s st%s)' % (self.callname('m_base', name, len(args)), ''.join(' ' + a for a in args))
                obj = 'st'
            else:
                obj = self.expr(base)
            if name.startswith('operator ') and not args and base['kind'] == 'DeclRefExpr' and base['referencedDecl']['name'] in self.unit.get('globals', ()):
                return obj           # conversion operator of std::atomic<T> (a load) on a state variable: the value itself
            return '(%s %s%s)' % (self.callname('m', name, len(args)), obj, ''.join(' ' + a for a in args))
        if k == 'CXXOperatorCallExpr':
            callee = n['inner'][0]
            while callee['kind'] in TRANSPARENT:
                callee = callee['inner'][0]
            name = callee['referencedDecl']['name']
            args = [self.expr(a) for a in n['inner'][1:]]
            return '(%s %s)' % (self.callname('c', name, len(args)), ' '.join(args))
        if k == 'CallExpr':
            callee = n['inner'][0]
            while callee['kind'] in TRANSPARENT:
                callee = callee['inner'][0]
            name = (callee.get('referencedDecl') or {}).get('name') or callee.get('name')
            if name is None:
                raise Unsupported('call of ' + callee['kind'])
            args = [self.expr(a) for a in n['inner'][1:] if a['kind'] != 'CXXDefaultArgExpr']
            if name == self.selfname and len(args) == len(self.params) and self.static:
                self.selfrec = True
                return '(self %s)' % ' '.join(args)
            if name in self.unit.get('this_calls', ()):
                # unit option this_calls: unqualified calls that clang leaves unresolved inside a class-template pattern
                # but that name non-static members of the same class
                self.uses_this = True
                return '(%s st%s)' % (self.callname('m', name, len(args)), ''.join(' ' + a for a in args))
            return '(%s%s)' % (self.callname('c', name, len(args)), ''.join(' ' + a for a in args) if args else ' tt')
        if k == 'ArraySubscriptExpr':
            a, i = n['inner']
            return '(idx %s %s)' % (self.expr(a), self.expr(i))
        if k in ('CXXConstructExpr', 'CXXTemporaryObjectExpr'):
            # unit option ctor_skip_defaults (C03 RC_intersection): defaulted constructor arguments are not passed (Coordinate(x, y) -> mk_Coordinate_2)
            args = [self.expr(a) for a in n.get('inner', []) if not (self.unit.get('ctor_skip_defaults') and a['kind'] == 'CXXDefaultArgExpr')]
            if len(args) == 1 and n.get('ctorType', {}).get('qualType', '').count('&'):
                return args[0]      # copy / move construction is the identity
            tn = qt(n).split('::')[-1].replace(' ', '').replace('const', '')
            return '(mk_%s_%d%s)' % (tn, len(args), ''.join(' ' + a for a in args) if args else ' tt')
        if k == 'CXXDefaultArgExpr':
            raise Unsupported('default argument')
        if k == 'UnaryExprOrTypeTraitExpr':
            # sizeof(<fixed-size scalar type>) on the LP64 / IEEE-754 target of the builds (C11 unit minMemSize)
            sz = {'double': 8, 'float': 4, 'char': 1, 'unsigned char': 1, 'int32_t': 4, 'uint32_t': 4, 'int64_t': 8, 'uint64_t': 8}
            at = (n.get('argType') or {}).get('qualType', '')
            if n.get('name') == 'sizeof' and at in sz:
                return '(%d)%%Z' % sz[at]
            raise Unsupported('sizeof')
        raise Unsupported('expr ' + k)

    # ------------------------------------------------------------ statements (CPS; k : () -> str)
    def ret(self, e=None):
        if self.isvoid and self.unit.get('returns_param'):
            # unit option returns_param (C09): a void function that writes through a pointer parameter (buf[i] = e ==> upd)
            # yields the final value of that parameter
            return 'v_' + self.unit['returns_param']
        if self.isvoid and self.unit.get('effects'):
            return '(ok st)'
        if self.isvoid:
            return 'st'
        if self.unit.get('out_params'):
            # unit option out_params (C20): a non-void function that writes through reference parameters yields
            # (final values of those parameters ..., return value)
            return '(%s, %s)' % (', '.join('v_' + p for p in self.unit['out_params']), e)
        if self.mutates:
            return '(st, %s)' % e
        return e

    def lhs_assign(self, lhs, e, cont):
        while lhs['kind'] in TRANSPARENT:
            lhs = lhs['inner'][0]
        if lhs['kind'] == 'MemberExpr':
            base = lhs['inner'][0]
            while base['kind'] in TRANSPARENT:
                base = base['inner'][0]
            if base['kind'] == 'CXXThisExpr':
                self.uses_this = True
                return '(let st := set_%s st %s in\n %s)' % (lhs['name'], e, cont())
            if base['kind'] == 'DeclRefExpr':
                v = 'v_' + base['referencedDecl']['name']
                return '(let %s := set_%s %s %s in\n %s)' % (v, lhs['name'], v, e, cont())
            if base['kind'] == 'MemberExpr':
                b2 = base['inner'][0]
                while b2['kind'] in TRANSPARENT:
                    b2 = b2['inner'][0]
                if b2['kind'] == 'CXXThisExpr':
                    # field of a class-typed data member:  this->m.f = e  ==>  set_m st (set_f (f_m st) e)   (C20 Centroid: cg3.x += ...)
                    self.uses_this = True
                    return '(let st := set_%s st (set_%s (f_%s st) %s) in\n %s)' % (base['name'], lhs['name'], base['name'], e, cont())
        if lhs['kind'] == 'DeclRefExpr' and lhs['referencedDecl']['name'] in self.unit.get('globals', ()) and lhs['referencedDecl']['name'] not in self.locals:
            self.uses_this = True; self.mutates = True
            return '(let st := set_g_%s st %s in\n %s)' % (lhs['referencedDecl']['name'], e, cont())
        if lhs['kind'] == 'DeclRefExpr':
            return '(let v_%s := %s in\n %s)' % (lhs['referencedDecl']['name'], e, cont())
        if lhs['kind'] == 'ArraySubscriptExpr':
            a, i = lhs['inner']
            while a['kind'] in TRANSPARENT:
                a = a['inner'][0]
            if a['kind'] == 'ArraySubscriptExpr':     # two-dimensional field
                a2, i2 = a['inner']
                while a2['kind'] in TRANSPARENT:
                    a2 = a2['inner'][0]
                if a2['kind'] == 'MemberExpr' and a2['inner'][0]['kind'] == 'CXXThisExpr':
                    self.uses_this = True
                    return '(let st := set2_%s st %s %s %s in\n %s)' % (a2['name'], self.expr(i2), self.expr(i), e, cont())
            if a['kind'] == 'MemberExpr' and a['inner'][0]['kind'] == 'CXXThisExpr':
                self.uses_this = True
                return '(let st := set1_%s st %s %s in\n %s)' % (a['name'], self.expr(i), e, cont())
            if a['kind'] == 'DeclRefExpr':
                v = 'v_' + a['referencedDecl']['name']
                return '(let %s := upd %s %s %s in\n %s)' % (v, v, self.expr(i), e, cont())
        px = self._proxy_elem(lhs)
        if px is not None:
            # element of a std::vector<bool> (or other class with operator[]) written through its proxy:  v[k] = e  (C18)
            obj, ix = px
            if obj['kind'] == 'MemberExpr':
                self.uses_this = True
                return '(let st := set1_%s st %s %s in\n %s)' % (obj['name'], self.expr(ix), e, cont())
            v = 'v_' + obj['referencedDecl']['name']
            return '(let %s := upd %s %s %s in\n %s)' % (v, v, self.expr(ix), e, cont())
        raise Unsupported('assignment to ' + lhs['kind'])

    def _proxy_elem(self, lhs):
        """lhs = <this-member or local>.operator[](index)  ->  (object node, index node), else None"""
        while lhs['kind'] in TRANSPARENT:
            lhs = lhs['inner'][0]
        if lhs['kind'] != 'CXXOperatorCallExpr' or len(lhs.get('inner', [])) != 3:
            return None
        callee = lhs['inner'][0]
        while callee['kind'] in TRANSPARENT:
            callee = callee['inner'][0]
        if (callee.get('referencedDecl') or {}).get('name') != 'operator[]':
            return None
        obj = lhs['inner'][1]
        while obj['kind'] in TRANSPARENT:
            obj = obj['inner'][0]
        if obj['kind'] == 'MemberExpr':
            b = obj['inner'][0]
            while b['kind'] in TRANSPARENT:
                b = b['inner'][0]
            return (obj, lhs['inner'][2]) if b['kind'] == 'CXXThisExpr' else None
        if obj['kind'] == 'DeclRefExpr' and obj['referencedDecl']['name'] in self.locals:
            return (obj, lhs['inner'][2])
        return None

    def stmts(self, lst, k):
        if not lst:
            return k()
        s, rest = lst[0], lst[1:]
        cont = lambda: self.stmts(rest, k)
        kind = s['kind']
        if kind in ('ExprWithCleanups',):
            return self.stmts(s['inner'] + rest, k)
        if kind == 'CompoundStmt':
            return self.stmts(s.get('inner', []) + rest, k)
        if kind == 'ReturnStmt':
            if s.get('inner') and self.isvoid:
                # `return voidcall(...);` in a void function: the call is a statement, then return
                return self.stmts([s['inner'][0]], lambda: 'st')
            if s.get('inner') and self.unit.get('state_calls'):
                # `return this->f(args);` where f is a translated unit that itself returns (st', value): pass its pair through
                c = s['inner'][0]
                while c['kind'] in TRANSPARENT:
                    c = c['inner'][0]
                if c['kind'] == 'CXXMemberCallExpr':
                    callee = c['inner'][0]
                    while callee['kind'] in TRANSPARENT:
                        callee = callee['inner'][0]
                    base = callee['inner'][0]
                    while base['kind'] in TRANSPARENT:
                        base = base['inner'][0]
                    if base['kind'] == 'CXXThisExpr' and callee.get('name') in self.unit['state_calls']:
                        self.uses_this = True; self.mutates = True
                        return self.expr(c)
            r = self.ret(self.expr(s['inner'][0]) if s.get('inner') else None)
            # inside a search loop (a counted `for` that contains `return`): the loop body yields Some result / None = go on
            return '(Some %s)' % r if getattr(self, 'search_depth', 0) > 0 else r
        if kind == 'DeclStmt':
            decls = s['inner']

            def go(i):
                if i == len(decls):
                    return cont()
                v = decls[i]
                if v['kind'] != 'VarDecl':
                    return go(i + 1)
                self.locals.add(v['name'])
                init = self.expr(v['inner'][0]) if v.get('inner') else 'dflt'
                return '(let v_%s := %s in\n %s)' % (v['name'], init, go(i + 1))
            return go(0)
        if kind == 'IfStmt':
            inner = [c for c in s['inner']]
            c = self.expr(inner[0]); a = inner[1]; b = inner[2] if len(inner) > 2 else None
            ta = self.stmts([a], cont)
            tb = self.stmts([b], cont) if b else cont()
            return '(if %s then\n %s\n else\n %s)' % (c, ta, tb)
        if kind == 'BinaryOperator' and s['opcode'] == '=':
            lhs, rhs = s['inner']
            self.mutates = self.mutates or self._is_this_lhs(lhs)
            return self.lhs_assign(lhs, self.expr(rhs), cont)
        if kind == 'CompoundAssignOperator':
            lhs, rhs = s['inner']
            op = s['opcode'][:-1]
            dbl = is_double(lhs)
            f = BIN_D[op] if dbl else BIN_Z[op]
            self.mutates = self.mutates or self._is_this_lhs(lhs)
            return self.lhs_assign(lhs, '(%s %s %s)' % (f, self.expr(lhs), self.expr(rhs)), cont)
        if kind == 'UnaryOperator' and s['opcode'] in ('++', '--'):
            tgt = s['inner'][0]
            d = '1' if s['opcode'] == '++' else '(-1)'
            self.mutates = self.mutates or self._is_this_lhs(tgt)
            return self.lhs_assign(tgt, '(Z.add %s %s)' % (self.expr(tgt), d), cont)
        if kind == 'CXXMemberCallExpr' and qt(s) == 'void':
            callee = s['inner'][0]
            base = callee['inner'][0]
            while base['kind'] in TRANSPARENT:
                base = base['inner'][0]
            args = [self.expr(a) for a in s['inner'][1:] if a['kind'] != 'CXXDefaultArgExpr']
            nm = self.callname('m', callee['name'], len(args))
            if base['kind'] == 'CXXThisExpr' and callee['name'] == self.selfname and len(args) == len(self.params) and callee.get('referencedMemberDecl') not in self.selfids:
                nm = self.callname('m_base', callee['name'], len(args))
            if base['kind'] == 'CXXThisExpr' and callee['name'] == self.selfname and len(args) == len(self.params) \
                    and callee.get('referencedMemberDecl') in self.selfids and self.unit.get('void_selfrec'):
                # unit option void_selfrec: a void member calling itself as a statement (open recursion on fuel, state threaded)  (C18)
                self.uses_this = True; self.mutates = True; self.selfrec = True
                return '(let st := self st%s in\n %s)' % (''.join(' ' + a for a in args), cont())
            if base['kind'] == 'CXXThisExpr':
                self.uses_this = True; self.mutates = True
                return '(let st := %s st%s in\n %s)' % (nm, ''.join(' ' + a for a in args), cont())
            if base['kind'] == 'DeclRefExpr' and callee['name'] in self.unit.get('out_member_calls', {}):
                # unit option out_member_calls {method: [position of the output reference argument]} (C06): a const-in-effect void
                # member that writes its result through a reference parameter (the callee unit uses returns_param):
                #   obj.f(a, o);   ==>   let v_o := m_f_2 v_obj a v_o in ...
                idxs = list(self.unit['out_member_calls'][callee['name']]); cargs = [a for a in s['inner'][1:] if a['kind'] != 'CXXDefaultArgExpr']
                if len(idxs) != 1:
                    raise Unsupported('out_member_calls: exactly one output argument is supported')
                o = cargs[idxs[0]]
                while o['kind'] in TRANSPARENT:
                    o = o['inner'][0]
                if o['kind'] != 'DeclRefExpr' or o['referencedDecl']['name'] not in self.locals:
                    raise Unsupported('out_member_calls: output argument of %s is not a local variable' % callee['name'])
                return '(let v_%s := %s v_%s%s in\n %s)' % (o['referencedDecl']['name'], nm, base['referencedDecl']['name'], ''.join(' ' + a for a in args), cont())
            if base['kind'] == 'DeclRefExpr':
                v = 'v_' + base['referencedDecl']['name']
                return '(let %s := %s %s%s in\n %s)' % (v, nm, v, ''.join(' ' + a for a in args), cont())
            if base['kind'] == 'MemberExpr' and base['inner'][0]['kind'] == 'CXXThisExpr':
                self.uses_this = True; self.mutates = True
                fld = base['name']
                return '(let st := set_%s st (%s (f_%s st)%s) in\n %s)' % (fld, nm, fld, ''.join(' ' + a for a in args), cont())
            raise Unsupported('void member call on ' + base['kind'])
        if kind == 'SwitchStmt':
            scrut = self.expr(s['inner'][0]); body = s['inner'][1].get('inner', [])
            cases = []; cur = None

            def flat(cs):
                labels = []
                while cs['kind'] in ('CaseStmt', 'DefaultStmt'):
                    if cs['kind'] == 'CaseStmt':
                        labels.append(self.expr(cs['inner'][0])); cs = cs['inner'][1]
                    else:
                        labels.append(None); cs = cs['inner'][0]
                return labels, cs
            for st in body:
                if st['kind'] in ('CaseStmt', 'DefaultStmt'):
                    labels, first = flat(st); cur = [labels, [first]]; cases.append(cur)
                else:
                    if cur is None:
                        raise Unsupported('statement before first case')
                    cur[1].append(st)

            def unbrace(sts):
                # `case X: { ...; break; }` — a braced case body whose last statement is the break: read it as its statements
                out = []
                for st in sts:
                    inner = st.get('inner', []) if st['kind'] == 'CompoundStmt' else None
                    if inner and inner[-1]['kind'] == 'BreakStmt':
                        out.extend(unbrace(inner))
                    else:
                        out.append(st)
                return out

            def case_body(i):
                acc = []
                for j in range(i, len(cases)):
                    for st in unbrace(cases[j][1]):
                        if st['kind'] == 'BreakStmt':
                            return self.stmts(acc, cont)
                        acc.append(st)
                        if st['kind'] == 'ReturnStmt':
                            return self.stmts(acc, cont)
                return self.stmts(acc, cont)

            def chain(i):
                if i == len(cases):
                    return cont()
                labels = cases[i][0]
                if None in labels:
                    if i != len(cases) - 1:
                        raise Unsupported('default not last')
                    return case_body(i)
                cond = ' || '.join('(Z.eqb %s %s)' % (scrut, l) for l in labels)
                return '(if (%s)%%bool then\n %s\n else\n %s)' % (cond, case_body(i), chain(i + 1))
            return chain(0)
        if kind == 'ForStmt':
            return self.for_stmt(s, cont)
        if kind == 'WhileStmt':
            return self.while_stmt(s, cont)
        if kind == 'NullStmt':
            return cont()
        if kind == 'ContinueStmt' and getattr(self, 'loop_tups', None):
            return self.loop_tups[-1]      # inside a counted for (fold): the rest of the body is skipped, the carried values are yielded
        if kind in ('ParenExpr', 'ConditionalOperator') and qt(s) == 'void' and self.unit.get('int_model') and is_assert_expansion(s):
            return cont()        # glibc's expansion of assert(e): (static_cast<bool>(e) ? void(0) : __assert_fail(...)) — no effect on the model
        if kind == 'CStyleCastExpr' and qt(s) == 'void':
            return cont()        # (void)unused;
        if kind == 'CXXThrowExpr' and self.unit.get('effects'):
            self.uses_this = True
            return '(throw st)'          # the exception carries the state reached so far (unit option effects)
        if kind == 'CXXThrowExpr':
            return 'throw'
        if kind == 'CallExpr' or kind == 'CXXOperatorCallExpr':
            # a bare call whose value is dropped: only allowed for known no-op / assertion helpers
            callee = s['inner'][0]
            while callee['kind'] in TRANSPARENT:
                callee = callee['inner'][0]
            name = (callee.get('referencedDecl') or {}).get('name', '')
            if self.unit.get('effects') and kind == 'CallExpr':
                c2 = callee
                while c2['kind'] in TRANSPARENT or (c2['kind'] == 'UnaryOperator' and c2.get('opcode') == '*'):
                    c2 = c2['inner'][0]
                n2 = (c2.get('referencedDecl') or {}).get('name', '')
                if n2 in self.unit.get('effect_calls', {}) and len(s['inner']) == 1:
                    self.uses_this = True; self.mutates = True
                    return '(bind (%s st) (fun st =>\n %s))' % (self.unit['effect_calls'][n2], cont())
                if n2 in self.unit.get('globals', ()) and len(s['inner']) == 1:
                    self.uses_this = True; self.mutates = True
                    return '(bind (call_g_%s st) (fun st =>\n %s))' % (n2, cont())
            if kind == 'CallExpr' and name in self.unit.get('ref_calls', {}):
                # unit option ref_calls {function: [positions of non-const reference arguments]} (C20): the callee is a unit that
                # yields the final value of its reference parameter (returns_param); ALL arguments are passed, the result is
                # assigned to the argument lvalue (a local or a data member of this):
                #   f(a, b, o);   ==>   o := c_f_3 a b o
                idxs = list(self.unit['ref_calls'][name]); cargs = [a for a in s['inner'][1:] if a['kind'] != 'CXXDefaultArgExpr']
                if len(idxs) != 1:
                    raise Unsupported('ref_calls: exactly one reference argument is supported')
                call = '(%s%s)' % (self.callname('c', name, len(cargs)), ''.join(' ' + self.expr(a) for a in cargs))
                self.mutates = self.mutates or self._is_this_lhs(cargs[idxs[0]])
                return self.lhs_assign(cargs[idxs[0]], call, cont)
            if kind == 'CallExpr' and name in self.unit.get('out_calls', {}):
                # unit option out_calls {function: [argument positions that are output references]} (C06):
                #   f(a, o1, o2);   ==>   let '(v_o1, v_o2) := c_f_<number of inputs> a in ...
                idxs = list(self.unit['out_calls'][name]); cargs = s['inner'][1:]
                outs = []
                for i in idxs:
                    o = cargs[i]
                    while o['kind'] in TRANSPARENT:
                        o = o['inner'][0]
                    if o['kind'] != 'DeclRefExpr' or o['referencedDecl']['name'] not in self.locals:
                        raise Unsupported('out_calls: output argument of %s is not a local variable' % name)
                    outs.append('v_' + o['referencedDecl']['name'])
                ins = [self.expr(a) for i, a in enumerate(cargs) if i not in idxs and a['kind'] != 'CXXDefaultArgExpr']
                pat = ("'(%s)" % ', '.join(outs)) if len(outs) > 1 else outs[0]
                return '(let %s := %s%s in\n %s)' % (pat, self.callname('c', name, len(ins)), ''.join(' ' + a for a in ins) if ins else ' tt', cont())
            if name in ('assert', '__assert_fail', 'ignore_unused_variable_warning') or name in self.unit.get('skip_calls', ()):
                # unit option skip_calls: argument-checking helpers that only throw (the unit's theorems carry the guard as a hypothesis)
                return cont()
            if kind == 'CXXOperatorCallExpr' and name == 'operator=' and len(s['inner']) == 3:
                # class-type assignment  lhs = rhs;  (copy assignment is the identity on values)
                lhs, rhs = s['inner'][1], s['inner'][2]
                self.mutates = self.mutates or self._is_this_lhs(lhs)
                return self.lhs_assign(lhs, self.expr(rhs), cont)
            raise Unsupported('call statement ' + name)
        raise Unsupported('stmt ' + kind)

    def _is_this_lhs(self, lhs):
        px = self._proxy_elem(lhs)
        if px is not None:
            return px[0]['kind'] == 'MemberExpr'
        while lhs['kind'] in TRANSPARENT or lhs['kind'] == 'ArraySubscriptExpr':
            lhs = lhs['inner'][0]
        return lhs['kind'] == 'MemberExpr' and lhs['inner'][0]['kind'] == 'CXXThisExpr'

    def assigned(self, n, acc):
        """names of outer variables (and 'st') assigned inside statement n"""
        k = n.get('kind')
        if k in ('BinaryOperator', 'CompoundAssignOperator') and (n.get('opcode', '') == '=' or k == 'CompoundAssignOperator') or (k == 'UnaryOperator' and n.get('opcode') in ('++', '--')):
            lhs = n['inner'][0]
            while lhs['kind'] in TRANSPARENT or lhs['kind'] == 'ArraySubscriptExpr':
                lhs = lhs['inner'][0]
            if lhs['kind'] == 'DeclRefExpr':
                acc.add('v_' + lhs['referencedDecl']['name'])
            elif lhs['kind'] == 'MemberExpr':
                b = lhs['inner'][0]
                while b['kind'] in TRANSPARENT:
                    b = b['inner'][0]
                if b['kind'] == 'MemberExpr':      # this->m.f = e (formerly '?': such a loop was Unsupported)
                    b = b['inner'][0]
                    while b['kind'] in TRANSPARENT:
                        b = b['inner'][0]
                    b = b if b['kind'] == 'CXXThisExpr' else {'kind': '?'}
                acc.add('st' if b['kind'] == 'CXXThisExpr' else ('v_' + b['referencedDecl']['name'] if b['kind'] == 'DeclRefExpr' else '?'))
        if k == 'CallExpr' and self.unit.get('ref_calls'):
            # unit option ref_calls: see stmts(); the reference arguments are assigned
            c0 = n['inner'][0]
            while c0['kind'] in TRANSPARENT:
                c0 = c0['inner'][0]
            nm0 = (c0.get('referencedDecl') or {}).get('name', '')
            for i in self.unit['ref_calls'].get(nm0, ()):
                o = n['inner'][1:][i]
                while o['kind'] in TRANSPARENT:
                    o = o['inner'][0]
                acc.add('v_' + o['referencedDecl']['name'] if o['kind'] == 'DeclRefExpr' else 'st' if self._is_this_lhs(o) else '?')
        if k == 'CallExpr' and self.unit.get('out_calls'):
            c0 = n['inner'][0]
            while c0['kind'] in TRANSPARENT:
                c0 = c0['inner'][0]
            nm0 = (c0.get('referencedDecl') or {}).get('name', '')
            for i in self.unit['out_calls'].get(nm0, ()):
                o = n['inner'][1:][i]
                while o['kind'] in TRANSPARENT:
                    o = o['inner'][0]
                acc.add('v_' + o['referencedDecl']['name'] if o['kind'] == 'DeclRefExpr' else '?')
        if k == 'CXXOperatorCallExpr' and len(n.get('inner', [])) == 3:
            # proxy element assignment  v[k] = e  (std::vector<bool>): counts as an assignment to the object holding v  (C18)
            c0 = n['inner'][0]
            while c0['kind'] in TRANSPARENT:
                c0 = c0['inner'][0]
            if (c0.get('referencedDecl') or {}).get('name') == 'operator=':
                px = self._proxy_elem(n['inner'][1])
                if px is not None:
                    acc.add('st' if px[0]['kind'] == 'MemberExpr' else 'v_' + px[0]['referencedDecl']['name'])
        if k == 'CXXMemberCallExpr' and qt(n) == 'void':
            b = n['inner'][0]['inner'][0]
            while b['kind'] in TRANSPARENT:
                b = b['inner'][0]
            acc.add('st' if b['kind'] in ('CXXThisExpr', 'MemberExpr') else ('v_' + b['referencedDecl']['name'] if b['kind'] == 'DeclRefExpr' else '?'))
        for c in n.get('inner', []):
            if isinstance(c, dict):
                self.assigned(c, acc)
        return acc

    def declared(self, n, acc):
        if n.get('kind') == 'VarDecl':
            acc.add('v_' + n['name'])
        for c in n.get('inner', []):
            if isinstance(c, dict):
                self.declared(c, acc)
        return acc

    def has_return(self, n):
        if n.get('kind') in ('ReturnStmt', 'BreakStmt', 'ContinueStmt', 'CXXThrowExpr'):
            return True
        return any(self.has_return(c) for c in n.get('inner', []) if isinstance(c, dict))

    def for_stmt(self, s, cont):
        """canonical counted loop  for (T i = a; i < b; i++ / ++i) body   with no return/break inside"""
        init, _, cond, inc, body = s['inner']
        if init and init.get('kind') == 'DeclStmt' and len(init['inner']) > 1 and all(d.get('kind') == 'VarDecl' and d.get('inner') for d in init['inner']):
            # for (T i = a, e = b; i < e; ++i): the further declarations are bound once, before the loop (C20 Centroid::addHole);
            # formerly Unsupported('for-init')
            extra = init['inner'][1:]
            s2 = dict(s); s2['inner'] = [dict(init, inner=[init['inner'][0]])] + list(s['inner'][1:])
            binds = []
            for d in extra:
                self.locals.add(d['name'])
                binds.append((d['name'], self.expr(d['inner'][0])))
            txt = self.for_stmt(s2, cont)
            for nm_, e_ in reversed(binds):
                txt = '(let v_%s := %s in\n %s)' % (nm_, e_, txt)
            return txt
        if not (init and init.get('kind') == 'DeclStmt' and len(init['inner']) == 1 and init['inner'][0].get('inner')):
            raise Unsupported('for-init')
        iv = init['inner'][0]; ivn = 'v_' + iv['name']
        self.locals.add(iv['name'])
        lo = self.expr(iv['inner'][0])
        c = cond
        while c['kind'] in TRANSPARENT:
            c = c['inner'][0]
        if not (c['kind'] == 'BinaryOperator' and c['opcode'] in ('<', '<=', '!=')):
            raise Unsupported('for-cond')
        cl = c['inner'][0]
        while cl['kind'] in TRANSPARENT:
            cl = cl['inner'][0]
        if not (cl['kind'] == 'DeclRefExpr' and cl['referencedDecl']['name'] == iv['name']):
            raise Unsupported('for-cond lhs')
        hi = self.expr(c['inner'][1])
        if c['opcode'] == '<=':
            hi = '(Z.add %s 1)' % hi
        i2 = inc
        while i2['kind'] in TRANSPARENT:
            i2 = i2['inner'][0]
        if not (i2['kind'] == 'UnaryOperator' and i2['opcode'] == '++'):
            raise Unsupported('for-inc')
        def _has_kind(n, kinds):
            return n.get('kind') in kinds or any(_has_kind(c, kinds) for c in n.get('inner', []) if isinstance(c, dict))
        # `continue` as the only jump inside a counted for (C20 Centroid::addLineSegments; formerly Unsupported): the fold body
        # yields the loop-carried tuple at the `continue`
        only_continue = _has_kind(body, ('ContinueStmt',)) and not _has_kind(body, ('ReturnStmt', 'BreakStmt', 'CXXThrowExpr'))
        if self.has_return(body) and not only_continue:
            # search loop: `return` inside a counted for whose body assigns no outer variable (no break / continue / throw):
            #   match fold_left (fun acc i => match acc with Some _ => acc | None => BODY end) (zrange lo hi) None with Some r => r | None => REST end
            # BODY yields (Some result) at a `return` and None where control reaches the end of the body
            def has_kind(n, kinds):
                return n.get('kind') in kinds or any(has_kind(c, kinds) for c in n.get('inner', []) if isinstance(c, dict))
            if has_kind(body, ('BreakStmt', 'ContinueStmt', 'CXXThrowExpr')) or self.isvoid:
                raise Unsupported('break/continue/throw inside for')
            if self.assigned(body, set()) - self.declared(body, set()) - {ivn}:
                raise Unsupported('for with return assigns outer variables')
            self.search_depth = getattr(self, 'search_depth', 0) + 1
            try:
                bodytxt = self.stmts([body], lambda: 'None')
            finally:
                self.search_depth -= 1
            return ('(match fold_left (fun acc %s => match acc with Some _ => acc | None =>\n %s\n end) (zrange %s %s) None with Some r => r | None =>\n %s\n end)'
                    % (ivn, bodytxt, lo, hi, cont()))
        asg = sorted(self.assigned(body, set()) - self.declared(body, set()) - {ivn})
        if '?' in asg:
            raise Unsupported('for-body assigns through an unknown object')
        if 'st' in asg:
            self.mutates = True; self.uses_this = True
        if not asg:
            # a loop whose body has no effect the translator recognises must not vanish silently (it may write through a
            # construct `assigned` does not see); units that really contain an effect-free loop say so with allow_dead_loops
            if not self.unit.get('allow_dead_loops'):
                raise Unsupported('for-loop with no recognised effect (would be dropped)')
            return cont()
        tup = '(%s)' % ', '.join(asg) if len(asg) > 1 else asg[0]
        pat = "'" + tup if len(asg) > 1 else tup
        self.__dict__.setdefault('loop_tups', []).append(tup)
        try:
            bodytxt = self.stmts([body], lambda: tup)
        finally:
            self.loop_tups.pop()
        return ('(let %s := fold_left (fun acc %s => let %s := acc in\n %s) (zrange %s %s) %s in\n %s)'
                % (pat, ivn, pat, bodytxt, lo, hi, tup, cont()))

    def while_stmt(self, s, cont):
        """while (cond) body  with no return/break inside: iteration on explicit fuel (unit option while_fuel, a Gallina
        nat expression over the parameters); running out of fuel yields the unit's default value through `None`, which the
        theorems about the unit must exclude.  The prelude supplies
          while_loop : nat -> (A -> bool) -> (A -> A) -> A -> option A."""
        inner = [c for c in s['inner'] if isinstance(c, dict) and c.get('kind')]
        cond, body = inner[-2], inner[-1]
        fuel = self.unit.get('while_fuel')
        if not fuel:
            raise Unsupported('while without the unit option while_fuel')
        if self.has_return(body):
            raise Unsupported('return/break inside while')
        asg = sorted(self.assigned(body, set()) - self.declared(body, set()))
        if '?' in asg:
            raise Unsupported('while-body assigns through an unknown object')
        if 'st' in asg:
            self.mutates = True; self.uses_this = True
        if not asg:
            raise Unsupported('while-body assigns nothing')
        tup = '(%s)' % ', '.join(asg) if len(asg) > 1 else asg[0]
        pat = "'" + tup if len(asg) > 1 else tup
        condtxt = self.expr(cond)
        bodytxt = self.stmts([body], lambda: tup)
        return ('(match while_loop %s (fun acc => let %s := acc in %s) (fun acc => let %s := acc in\n %s) %s with\n | Some %s =>\n %s\n | None => %s end)'
                % (fuel, pat, condtxt, pat, bodytxt, tup, tup, cont(), self.ret(self.dflt)))

    def collect_locals(self, n):
        if n.get('kind') == 'VarDecl' and 'name' in n:
            self.locals.add(n['name'])
        for c in n.get('inner', []):
            if isinstance(c, dict):
                self.collect_locals(c)

    def run(self, gname):
        if self.unit.get('ctor_base_init'):
            # unit option ctor_base_init (C15): the unit is a constructor; the generated definition is the tuple of the
            # arguments its mem-initializer list passes to the BASE-class constructor (e.g. the bounds a branch node takes)
            inits = [c for c in self.fn['inner'] if c['kind'] == 'CXXCtorInitializer' and c.get('baseInit')]
            if len(inits) != 1:
                raise Unsupported('ctor_base_init: expected exactly one base initializer')
            e = inits[0]['inner'][0]
            while e['kind'] in TRANSPARENT:
                e = e['inner'][0]
            if e['kind'] != 'CXXConstructExpr':
                raise Unsupported('ctor_base_init: ' + e['kind'])
            args = [self.expr(a) for a in e.get('inner', [])]
            ps = ''.join(' (v_%s : _)' % p['name'] for p in self.params)
            return 'Definition %s%s :=\n (%s).\n' % (gname, ps, ', '.join(args))
        self.collect_locals(self.body)
        body = self.stmts([self.body], lambda: self.ret(self.dflt))
        def coqtype(p):
            if p.get('name') in self.unit.get('param_types', {}):
                # unit option param_types {parameter: Gallina type} (C19): overrides the guess below (a class named
                # ...Location, e.g. linearref::LinearLocation, is an object, not the geom::Location enumeration)
                return self.unit['param_types'][p['name']]
            q = (p.get('type', {}).get('desugaredQualType') or p.get('type', {}).get('qualType', '')).replace('const ', '').replace('&', '').strip()
            if q == 'bool':
                return 'bool'
            if q in ('int', 'long', 'unsigned int', 'unsigned long', 'char', 'size_t', 'std::size_t', 'uint32_t', 'int32_t', 'int64_t', 'uint64_t', 'long long', 'unsigned long long') \
                    or q.endswith('Location') or q.endswith('DimensionType'):
                return 'Z'
            return '_'
        ps = ''.join(' (v_%s : %s)' % (p['name'], coqtype(p)) for p in self.params)
        st = ' (st : _)' if (self.uses_this or (self.isvoid and not self.unit.get('returns_param'))) else ''
        if self.selfrec:
            K = self.unit.get('fuel', 2)
            stargs = ' st' if st else ''
            return ('Fixpoint %s_fuel (fuel : nat)%s%s {struct fuel} :=\n match fuel with O => %s | S fuel' % (gname, st, ps, 'st' if self.isvoid else self.dflt) +
                    ' => let self := %s_fuel fuel in\n %s\n end.\nDefinition %s%s%s := %s_fuel %d%s%s.\n'
                    % (gname, body, gname, st, ps, gname, K, stargs, ''.join(' v_' + p['name'] for p in self.params)))
        return 'Definition %s%s%s :=\n %s.\n' % (gname, st, ps, body)


def enum_values(repo, builddir, src, rd_list):
    """values of the enumerators used, from the AST of their enum declarations (implicit values counted up)"""
    vals = {}
    names = sorted({rd['name'] for rd in rd_list})
    if not names:
        return vals
    # dump every EnumDecl that contains one of the names: filter by enumerator name is a substring match on qualified names
    for nm in names:
        docs = clang_docs(repo, builddir, src, nm)
        for d in docs:
            if d.get('kind') == 'EnumConstantDecl' and d.get('name') == nm:
                pass
        # enumerators are printed as part of their EnumDecl when the filter matches the EnumDecl; fall back to a value probe
    return vals


def probe_enum_values(repo, builddir, src, enums):
    """compile-time evaluation by clang: a tiny TU that static_asserts nothing but dumps each enumerator in a constexpr var"""
    if not enums:
        return {}
    lines = ['#include "%s"' % os.path.join(repo, src)]
    for i, (nm, rd) in enumerate(sorted(enums.items())):
        lines.append('extern char verif_probe_%d[static_cast<long long>(%s) + 1000000];' % (i, rd['qual']))
    tu = '\n'.join(lines) + '\n'
    cmd = ['clang++', '-std=c++17', '-DUSE_UNSTABLE_GEOS_CPP_API', '-I', os.path.join(repo, 'include'), '-I', os.path.join(builddir, 'include'),
           '-I', os.path.join(builddir, 'capi'), '-I', os.path.join(repo, 'src/deps'), '-I', os.path.dirname(os.path.join(repo, src)),
           '-fsyntax-only', '-x', 'c++', '-Xclang', '-ast-dump=json', '-Xclang', '-ast-dump-filter=verif_probe_', '-']
    out = subprocess.run(cmd, input=tu, capture_output=True, text=True, cwd=repo, timeout=300)
    dec = json.JSONDecoder(); i = 0; vals = {}
    txt = out.stdout
    docs = []
    while i < len(txt):
        while i < len(txt) and txt[i].isspace():
            i += 1
        if i >= len(txt):
            break
        o, j = dec.raw_decode(txt, i); docs.append(o); i = j

    import re as _re
    keys = sorted(enums)
    for d in docs:
        nm = d.get('name', '')
        if nm.startswith('verif_probe_'):
            idx = int(nm.split('_')[-1])
            m = _re.match(r'char\s*\[(\d+)\]', d.get('type', {}).get('qualType', ''))
            if not m:
                raise Unsupported('cannot evaluate enumerator ' + keys[idx])
            vals[keys[idx]] = int(m.group(1)) - 1000000
    missing = [k for k in keys if k not in vals]
    if missing:
        raise Unsupported('enumerator values not found: %s (%s)' % (missing, out.stderr[-300:]))
    return vals


def qualify_enums(fn_docs, enums, unit):
    """qualified C++ spelling of each enumerator: from the unit's `enum_scopes` map (EnumConstant name -> qualified name)"""
    scopes = unit.get('enum_scopes', {})
    for nm, rd in enums.items():
        base = rd['name']
        q = scopes.get(base)
        if q is None:
            # default guess from the enumerator's type: 'geos::geom::Location' -> geos::geom::Location::INTERIOR
            t = rd.get('type', {}).get('qualType', '')
            q = (t + '::' + base) if t and 'unnamed' not in t and 'anonymous' not in t else None
        if q is None:
            raise Unsupported('cannot qualify enumerator %s; add enum_scopes to the unit' % base)
        rd['qual'] = q


def translate_unit(name, unit, repo, outdir, builddir):
    src = unit['src']
    docs = clang_docs(repo, builddir, src, unit['qual'])
    fn = find_def(docs, unit['qual'].split('::')[-1], unit.get('nparams'), instantiation=unit.get('instantiation'), ptypes=unit.get('ptypes'))
    rng = fn.get('range', {})
    b, e = rng.get('begin', {}).get('offset'), rng.get('end', {}).get('offset')
    path = rng.get('begin', {}).get('file') or fn.get('loc', {}).get('file') or src
    try:
        text = open(os.path.join(repo, path) if not os.path.isabs(path) else path, 'rb').read()[b:e + 1] if b is not None else b''
    except Exception:
        text = b''
    sha = hashlib.sha256(text).hexdigest()
    tr = Tr(fn, unit)
    kind = 'c' if tr.static else 'm'
    gname = unit.get('gname') or '%s_%s_%d' % (kind, fn['name'], len(tr.params))
    body = tr.run(gname)
    qualify_enums(docs, tr.enums, unit)
    cscopes = unit.get('consts', {})
    cprobe = {}
    for nm, rd in tr.consts.items():
        if rd['name'] not in cscopes:
            raise Unsupported('reference to non-local variable %s: add consts={name: qualified C++ spelling} to the unit' % rd['name'])
        cprobe[nm] = dict(qual=cscopes[rd['name']], type=rd.get('type', {}).get('qualType', ''))
    # constants of floating type: dyadic values with at most 20 fractional bits are probed exactly (value * 2^20 must be integral)
    dprobe = {nm: cprobe.pop(nm) for nm in list(cprobe) if cprobe[nm]['type'].replace('const ', '').strip() in ('double', 'float')}
    allp = dict(tr.enums); allp.update(cprobe)
    for nm, d in dprobe.items():
        allp[nm] = dict(qual='((%s) * 1048576.0 == static_cast<double>(static_cast<long long>((%s) * 1048576.0)) && (%s) < 0.9 && (%s) > -0.9 ? (%s) * 1048576.0 : -999999.0)'
                        % ((d['qual'],) * 5))
    vals = probe_enum_values(repo, builddir, src, allp)
    cvals = {nm: vals.pop(nm) for nm in list(cprobe)}
    dvals = {}
    for nm in dprobe:
        v = vals.pop(nm)
        if v == -999999:
            raise Unsupported('floating constant %s is not a dyadic value with <= 20 fractional bits in (-0.9, 0.9)' % nm)
        fr = Fraction(v, 1048576)
        dvals[nm] = '(flit %d (%d) %d)' % (struct.unpack('<Q', struct.pack('<d', float(fr)))[0], fr.numerator, fr.denominator)
    hdr = ['(* GENERATED by translator/cxx2gallina.py — do not edit, not committed.',
           '   unit %s : %s in %s bytes %s..%s sha256 %s *)' % (name, unit['qual'], path, b, e, sha)]
    late = unit.get('imports_last')     # prelude names (eqb, leb, ltb ...) must win over Coq.Bool's: import the prelude after the stdlib
    if late:
        hdr.append('From Coq Require Import ZArith List Bool.')
    for imp in unit.get('imports', []):
        hdr.append('From GeosV Require Import %s.' % imp)
    for dep in unit.get('deps', []):
        hdr.append('From GeosV.Gen Require Import %s.' % dep)
    if not late:
        hdr.append('From Coq Require Import ZArith List Bool.')
    hdr.append('Import ListNotations.')
    hdr.append('Local Open Scope Z_scope.')
    for nm in sorted(vals):
        hdr.append('Definition %s : Z := (%d)%%Z.' % (nm, vals[nm]))
    for nm in sorted(cvals):
        if 'bool' in cprobe[nm]['type']:
            hdr.append('Definition %s : bool := %s.' % (nm, 'true' if cvals[nm] else 'false'))
        else:
            hdr.append('Definition %s : Z := (%d)%%Z.' % (nm, cvals[nm]))
    for nm in sorted(dvals):
        hdr.append('Definition %s := %s.' % (nm, dvals[nm]))
    for k_, lt in enumerate(getattr(tr, 'literals', [])):
        hdr.append('Definition lit_%d := %s.' % (k_, lt))
    for al, target in unit.get('aliases', {}).items():
        hdr.append('Notation %s := %s (only parsing).' % (al, target))
    virt = unit.get('virtuals', {})
    if virt:
        hdr.append('Section Virtuals.')
        for vn, vt in virt.items():
            hdr.append('Variable %s : %s.' % (vn, vt))
        for al, target in unit.get('section_aliases', {}).items():
            # unit option section_aliases (C20): aliases that mention the Section variables (a callee unit applied to them)
            hdr.append('Notation %s := %s (only parsing).' % (al, target))
        body = body + 'End Virtuals.\n'
    txt = '\n'.join(hdr) + '\n' + body
    os.makedirs(outdir, exist_ok=True)
    outp = os.path.join(outdir, name + '.v')
    if not os.path.exists(outp) or open(outp).read() != txt:
        open(outp, 'w').write(txt)
    return sha


def generate(unit_names, repo, outdir, builddir, jobs=8):
    from translator.units import UNITS
    res = {}

    def one(nm):
        if nm not in UNITS:
            return nm, dict(ok=False, error='unknown unit ' + nm)
        try:
            sha = translate_unit(nm, UNITS[nm], repo, outdir, builddir)
            return nm, dict(ok=True, sha=sha)
        except Unsupported as ex:
            # a unit that no longer translates must not leave a stale definition behind
            p = os.path.join(outdir, nm + '.v')
            open(p, 'w').write('(* unit %s failed to translate: %s *)\nDefinition translation_failed : False := I.\n' % (nm, ex))
            return nm, dict(ok=False, error='Unsupported: %s' % ex)
        except Exception as ex:
            p = os.path.join(outdir, nm + '.v')
            open(p, 'w').write('(* unit %s failed to translate: %r *)\nDefinition translation_failed : False := I.\n' % (nm, ex))
            return nm, dict(ok=False, error=repr(ex))
    with ThreadPoolExecutor(max_workers=jobs) as ex:
        for nm, r in ex.map(one, unit_names):
            res[nm] = r
    return res


if __name__ == '__main__':
    sys.path.insert(0, os.path.dirname(HERE))
    from translator.units import UNITS
    root = os.path.dirname(HERE)
    names = sorted(UNITS) if '--all' in sys.argv else [a for a in sys.argv[1:] if not a.startswith('-')]
    r = generate(names, os.environ.get('VERIF_REPO', '/repo'), os.path.join(root, 'coq/theories/Gen'), os.path.join(root, '.build/rel'), jobs=os.cpu_count() or 4)
    bad = 0
    for nm in names:
        print('%-40s %s' % (nm, 'ok ' + r[nm]['sha'][:12] if r[nm]['ok'] else 'FAILED ' + r[nm]['error']))
        bad += 0 if r[nm]['ok'] else 1
    sys.exit(1 if bad else 0)
