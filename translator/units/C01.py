"""DE-9IM units (C01, shared with C02)"""
IM = 'src/geom/IntersectionMatrix.cpp'
def im(name, n, deps=()):
    return dict(src=IM, qual='geos::geom::IntersectionMatrix::' + name, nparams=n, imports=['Lib.GenPreludeIM'], deps=list(deps))
UNITS = {
    'IM_matches': im('matches', 2),
    'IM_isDisjoint': im('isDisjoint', 0),
    'IM_isIntersects': im('isIntersects', 0, ['IM_isDisjoint']),
    'IM_isTouches': im('isTouches', 2, ['IM_matches']),
    'IM_isCrosses': im('isCrosses', 2, ['IM_matches']),
    'IM_isWithin': im('isWithin', 0, ['IM_matches']),
    'IM_isContains': im('isContains', 0, ['IM_matches']),
    'IM_isEquals': im('isEquals', 2, ['IM_matches']),
    'IM_isOverlaps': im('isOverlaps', 2, ['IM_matches']),
    'IM_isCovers': im('isCovers', 0, ['IM_matches']),
    'IM_isCoveredBy': im('isCoveredBy', 0, ['IM_matches']),
}

# ---- RelateNG predicate layer (TopologyPredicate protocol) ----
BP = 'src/operation/relateng/BasicPredicate.cpp'
IP = 'src/operation/relateng/IMPredicate.cpp'
RP = 'src/operation/relateng/RelatePredicate.cpp'
NS = 'geos::operation::relateng::'
PRE = ['Lib.GenPreludePred']
BPC = {'UNKNOWN': NS + 'BasicPredicate::UNKNOWN', 'TRUE': NS + 'BasicPredicate::TRUE', 'FALSE': NS + 'BasicPredicate::FALSE'}
def bp(name, n, deps=(), **kw):
    return dict(src=BP, qual=NS + 'BasicPredicate::' + name, nparams=n, imports=PRE, deps=list(deps), consts=BPC, **kw)
def ip(name, n, deps=(), **kw):
    return dict(src=IP, qual=NS + 'IMPredicate::' + name, nparams=n, imports=PRE, deps=list(deps), **kw)
VIRT = {'m_isDetermined_0': 'pst -> bool', 'm_valueIM_0': 'pst -> bool'}
UNITS.update({
    'BP_isKnownV': bp('isKnown', 1),
    'BP_toBoolean': bp('toBoolean', 1),
    'BP_toValue': bp('toValue', 1),
    'BP_isIntersection': bp('isIntersection', 2),
    'BP_isKnown': bp('isKnown', 0, ['BP_isKnownV']),
    'BP_value': bp('value', 0, ['BP_toBoolean']),
    'BP_setValue': bp('setValue', 1, ['BP_isKnown', 'BP_toValue'], ptypes=['bool']),
    'BP_setValueIf': bp('setValueIf', 2, ['BP_setValue']),
    'BP_require': bp('require', 1, ['BP_setValue']),
    'BP_requireCovers': bp('requireCovers', 2, ['BP_require']),
    'IP_isDimsCompatibleWithCovers': ip('isDimsCompatibleWithCovers', 2),
    'IP_init': ip('init', 2),
    'IP_isDimChanged': ip('isDimChanged', 3),
    'IP_updateDimension': ip('updateDimension', 3, ['IP_isDimChanged', 'BP_setValue'], virtuals=VIRT),
    'IP_isIntersects': ip('isIntersects', 2),
    'IP_intersectsExteriorOf': ip('intersectsExteriorOf', 1, ['IP_isIntersects']),
    'IP_isDimension': ip('isDimension', 3),
    'IP_getDimension': ip('getDimension', 2),
    'IP_finish': ip('finish', 0, ['BP_setValue'], virtuals={'m_valueIM_0': 'pst -> bool'}),
})
RGC = {'GEOM_A': NS + 'RelateGeometry::GEOM_A', 'GEOM_B': NS + 'RelateGeometry::GEOM_B'}
def rp(cls, name, n, deps=(), **kw):
    kw.setdefault('consts', RGC)
    return dict(src=RP, qual=NS + 'RelatePredicate::' + cls + 'Predicate::' + name, nparams=n, imports=PRE, deps=list(deps), **kw)
ENVT = ['Envelope', 'Envelope']
IM_OF = {'Contains': 'IM_isContains', 'Within': 'IM_isWithin', 'Covers': 'IM_isCovers', 'CoveredBy': 'IM_isCoveredBy', 'Crosses': 'IM_isCrosses',
         'EqualsTopo': 'IM_isEquals', 'Overlaps': 'IM_isOverlaps', 'Touches': 'IM_isTouches'}
for cls in IM_OF:
    UNITS['RP_%s_initDim' % cls] = rp(cls, 'init', 2, ['IP_init', 'IP_isDimsCompatibleWithCovers', 'BP_require'], ptypes=['int', 'int'],
                                       aliases={'m_base_init_2': 'IP_init.m_init_2'})
    UNITS['RP_%s_isDetermined' % cls] = rp(cls, 'isDetermined', 0, ['IP_intersectsExteriorOf', 'IP_isIntersects', 'IP_getDimension', 'IP_isDimension'])
    UNITS['RP_%s_valueIM' % cls] = rp(cls, 'valueIM', 0, [IM_OF[cls]])
for cls in ['Contains', 'Within', 'Covers', 'CoveredBy']:
    UNITS['RP_%s_initEnv' % cls] = rp(cls, 'init', 2, ['BP_requireCovers'], ptypes=ENVT)
    UNITS['RP_%s_requireCovers' % cls] = rp(cls, 'requireCovers', 1)
    UNITS['RP_%s_requireExteriorCheck' % cls] = rp(cls, 'requireExteriorCheck', 1)
UNITS['RP_EqualsTopo_initEnv'] = rp('EqualsTopo', 'init', 2, ['BP_setValueIf', 'BP_require'], ptypes=ENVT)
for cls in ['Intersects', 'Disjoint']:
    UNITS['RP_%s_initEnv' % cls] = rp(cls, 'init', 2, ['BP_require', 'BP_setValueIf'], ptypes=ENVT)
    UNITS['RP_%s_updateDimension' % cls] = rp(cls, 'updateDimension', 3, ['BP_setValueIf', 'BP_isIntersection'])
    UNITS['RP_%s_finish' % cls] = rp(cls, 'finish', 0, ['BP_setValue'])
ALSO = {'C02': list(UNITS)}

# ---- Envelope member predicates used by the predicate layer (null envelope = NaN bounds) ----
ENVH = 'src/geom/Envelope.cpp'
def ev(name, n, pt, deps=()):
    return dict(src=ENVH, qual='geos::geom::Envelope::' + name, nparams=n, ptypes=pt, imports=['Lib.GenPreludeEnv'], imports_last=True, deps=list(deps))
UNITS.update({
    'ENV_isNull': ev('isNull', 0, []),
    'ENV_covers': ev('covers', 1, ['Envelope &']),
    'ENV_intersects': ev('intersects', 1, ['Envelope *']),
    'ENV_equals': ev('equals', 1, ['Envelope *'], ['ENV_isNull']),
})
ALSO = {'C02': list(UNITS)}
UNITS['RNG_hasRequiredEnvelopeInteraction'] = dict(src='src/operation/relateng/RelateNG.cpp', qual=NS + 'RelateNG::hasRequiredEnvelopeInteraction',
    nparams=2, imports=['Lib.GenPreludeGate'], deps=[], consts={'GEOM_A': NS + 'RelateGeometry::GEOM_A', 'GEOM_B': NS + 'RelateGeometry::GEOM_B'})
ALSO = {'C02': list(UNITS)}
TPH = 'src/operation/relateng/RelatePredicate.cpp'
UNITS['TP_requireInteraction'] = dict(src=TPH, qual=NS + 'TopologyPredicate::requireInteraction', nparams=0, imports=PRE, deps=[])
UNITS['TP_requireCovers'] = dict(src=TPH, qual=NS + 'TopologyPredicate::requireCovers', nparams=1, imports=PRE, deps=[])
UNITS['RP_Disjoint_requireInteraction'] = rp('Disjoint', 'requireInteraction', 0)
UNITS['RP_EqualsTopo_requireInteraction'] = rp('EqualsTopo', 'requireInteraction', 0)
ALSO = {'C02': list(UNITS)}
