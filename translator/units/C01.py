"""DE-9IM units (C01, shared with C02)"""
IM = 'src/geom/IntersectionMatrix.cpp'
def im(name, n, deps=()):
    return dict(src=IM, qual='geos::geom::IntersectionMatrix::' + name, nparams=n, imports=['Lib.GenPreludeIM'], deps=list(deps))
UNITS = {
    'IM_matches': im('matches', 2),
    'IM_isDisjoint': im('isDisjoint', 0),
    'IM_isIntersects': im('isIntersects', 0, ['IM_isDisjoint']),
    'IM_isTouches': im('isTouches', 2, ['IM_matches']),
    'IM_isCrosses': im('isCrosses', 2, ['IM_matches']),
    'IM_isWithin': im('isWithin', 0, ['IM_matches']),
    'IM_isContains': im('isContains', 0, ['IM_matches']),
    'IM_isEquals': im('isEquals', 2, ['IM_matches']),
    'IM_isOverlaps': im('isOverlaps', 2, ['IM_matches']),
    'IM_isCovers': im('isCovers', 0, ['IM_matches']),
    'IM_isCoveredBy': im('isCoveredBy', 0, ['IM_matches']),
}
ALSO = {'C02': list(UNITS)}
