"""C20 units: the Hilbert curve bit kernels of src/shape/fractal/HilbertCode.cpp (uint32_t straight-line code).
Semantics of the generated text is supplied by C20/HilbertPrelude.v (32-bit wrap of << is NOT modelled: the theorems
are restricted to level <= 16 and ordinates <= maxOrdinate(level), where no shift leaves 32 bits; see Hilbert.v)."""
HC = 'src/shape/fractal/HilbertCode.cpp'
def hc(name, n, deps=()):
    return dict(src=HC, qual='geos::shape::fractal::HilbertCode::' + name, nparams=n, imports=['C20.HilbertPrelude'], deps=list(deps), skip_calls=['checkLevel'],
                )
UNITS = {
    'HC_deinterleave': hc('deinterleave', 1),
    'HC_interleave': hc('interleave', 1),
    'HC_prefixScan': hc('prefixScan', 1),
    'HC_descan': hc('descan', 1),
    'HC_encode': hc('encode', 3, ['HC_interleave']),
    'HC_decode': hc('decode', 2, ['HC_deinterleave', 'HC_prefixScan']),
}

# ---- geos::algorithm::Centroid (src/algorithm/Centroid.cpp): the accumulation code and getCentroid's selection.
# `double` is read as an INTEGER on the grid (Lib.GenPreludeZ, re-exported by C20.CentroidPrelude, which also gives the
# object record, CoordinateSequence = list of points, *areaBasePt, setAreaBasePoint).  Kept abstract (Section variables of
# the generated files, the theorems of C20/CentroidGen.v quantify over them): Orientation::isCCW (c_isCCW_1),
# CoordinateXY::distance (m_distance_1) and the floating division (div).
CEN = 'src/algorithm/Centroid.cpp'
def cen(name, n, deps=(), **kw):
    d = dict(src=CEN, qual='geos::algorithm::Centroid::' + name, nparams=n, imports=['C20.CentroidPrelude'], imports_last=True,
             deps=list(deps), gname='cen_' + name)
    d.update(kw)
    return d
UNITS.update({
    'CEN_area2': cen('area2', 3),
    'CEN_centroid3': cen('centroid3', 4, returns_param='c'),
    'CEN_addTriangle': cen('addTriangle', 4, ['CEN_area2', 'CEN_centroid3'], ref_calls={'centroid3': [3]},
                           aliases={'c_area2_3': 'cen_area2', 'c_centroid3_4': 'cen_centroid3'}),
    'CEN_addPoint': cen('addPoint', 1),
    'CEN_addLineSegments': cen('addLineSegments', 1, ['CEN_addPoint'], aliases={'m_addPoint_1': 'cen_addPoint'},
                               virtuals={'m_distance_1': 'pt -> pt -> Z', 'div': 'Z -> Z -> Z'}),
    'CEN_addShell': cen('addShell', 1, ['CEN_addTriangle', 'CEN_addLineSegments'],
                        aliases={'m_addTriangle_4': 'cen_addTriangle'}, section_aliases={'m_addLineSegments_1': '(cen_addLineSegments m_distance_1 div)'},
                        virtuals={'c_isCCW_1': 'list pt -> bool', 'm_distance_1': 'pt -> pt -> Z', 'div': 'Z -> Z -> Z'}),
    'CEN_addHole': cen('addHole', 1, ['CEN_addTriangle', 'CEN_addLineSegments'],
                       aliases={'m_addTriangle_4': 'cen_addTriangle'}, section_aliases={'m_addLineSegments_1': '(cen_addLineSegments m_distance_1 div)'},
                       virtuals={'c_isCCW_1': 'list pt -> bool', 'm_distance_1': 'pt -> pt -> Z', 'div': 'Z -> Z -> Z'}),
    'CEN_getCentroid': cen('getCentroid', 1, out_params=['cent'], virtuals={'div': 'Z -> Z -> Z'}),
})
