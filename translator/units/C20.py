"""C20 units: the Hilbert curve bit kernels of src/shape/fractal/HilbertCode.cpp (uint32_t straight-line code).
Semantics of the generated text is supplied by C20/HilbertPrelude.v (32-bit wrap of << is NOT modelled: the theorems
are restricted to level <= 16 and ordinates <= maxOrdinate(level), where no shift leaves 32 bits; see Hilbert.v)."""
HC = 'src/shape/fractal/HilbertCode.cpp'
def hc(name, n, deps=()):
    return dict(src=HC, qual='geos::shape::fractal::HilbertCode::' + name, nparams=n, imports=['C20.HilbertPrelude'], deps=list(deps), skip_calls=['checkLevel'],
                )
UNITS = {
    'HC_deinterleave': hc('deinterleave', 1),
    'HC_interleave': hc('interleave', 1),
    'HC_prefixScan': hc('prefixScan', 1),
    'HC_descan': hc('descan', 1),
    'HC_encode': hc('encode', 3, ['HC_interleave']),
    'HC_decode': hc('decode', 2, ['HC_deinterleave', 'HC_prefixScan']),
}
