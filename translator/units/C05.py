"""C05 units: leaf decision functions of src/operation/valid.
PolygonIntersectionAnalyzer (C05.PreludePIA): a segment string is its identity (Z: `ss0 == ss1` is Z.eqb), its coordinates
and size are read through the section variables m_getCoordinate_1 / m_size_0; the LineIntersector member `li` is the
C07.PreludeLI reading (Lib.KernelDefs.seg_res: the generated K_intersectZ is proved equal to seg_class there);
PolygonNodeTopology::isCrossing and the PolygonRing touch bookkeeping are section variables (outside the units).
IsValidOp (C05.PreludeIVO): a LinearRing / LineString is its coordinate list (grid points), the IsValidOp object is its
first logged error (code, location)."""
PIA = 'src/operation/valid/PolygonIntersectionAnalyzer.cpp'
IVO = 'src/operation/valid/IsValidOp.cpp'
TVE = 'geos::operation::valid::TopologyValidationError::'
ES = {n: TVE + n for n in ('eError', 'eRepeatedPoint', 'eHoleOutsideShell', 'eNestedHoles', 'eDisconnectedInterior', 'eSelfIntersection',
                           'eRingSelfIntersection', 'eNestedShells', 'eDuplicatedRings', 'eTooFewPoints', 'eInvalidCoordinate',
                           'eRingNotClosed', 'oNoInvalidIntersection')}
P = ['C05.PreludePIA']
Q = ['C05.PreludeIVO']
NOST = {'m_isAdjacentInRing_3': '(fun _ : piast => g_isAdjacentInRing)', 'm_prevCoordinateInRing_2': '(fun _ : piast => g_prevCoordinateInRing)'}
UNITS = {
    'V_isAdjacentInRing': dict(src=PIA, qual='geos::operation::valid::PolygonIntersectionAnalyzer::isAdjacentInRing', nparams=3, imports=P,
                               gname='g_isAdjacentInRing', imports_last=True),
    'V_prevCoordinateInRing': dict(src=PIA, qual='geos::operation::valid::PolygonIntersectionAnalyzer::prevCoordinateInRing', nparams=2, imports=P,
                                   gname='g_prevCoordinateInRing', imports_last=True),
    'V_findInvalidIntersection': dict(src=PIA, qual='geos::operation::valid::PolygonIntersectionAnalyzer::findInvalidIntersection', nparams=4,
                                      imports=P, gname='g_findInvalidIntersection', imports_last=True, enum_scopes=ES,
                                      deps=['V_isAdjacentInRing', 'V_prevCoordinateInRing'],
                                      aliases=NOST,
                                      virtuals=dict(c_isCrossing_5='pt -> pt -> pt -> pt -> pt -> bool',
                                                    m_addSelfTouch_6='piast -> segstr -> pt -> pt -> pt -> pt -> pt -> piast',
                                                    m_addDoubleTouch_3='piast -> segstr -> segstr -> pt -> bool')),
    'V_checkRingClosed': dict(src=IVO, qual='geos::operation::valid::IsValidOp::checkRingClosed', nparams=1, imports=Q,
                              gname='g_checkRingClosed', imports_last=True, enum_scopes=ES),
    'V_checkTooFewPoints': dict(src=IVO, qual='geos::operation::valid::IsValidOp::checkTooFewPoints', nparams=2, imports=Q,
                                gname='m_checkTooFewPoints_2', imports_last=True, enum_scopes=ES),
    'V_checkRingPointSize': dict(src=IVO, qual='geos::operation::valid::IsValidOp::checkRingPointSize', nparams=1, imports=Q,
                                 gname='g_checkRingPointSize', imports_last=True, enum_scopes=ES, deps=['V_checkTooFewPoints'],
                                 consts={'MIN_SIZE_RING': 'geos::operation::valid::IsValidOp::MIN_SIZE_RING'}),
    # IsValidOp::isValid(const LineString*) / (const LinearRing*): the order of the checks and the minimum sizes
    'V_isValidLine': dict(src=IVO, qual='geos::operation::valid::IsValidOp::isValid', nparams=1, ptypes=['LineString'], imports=Q,
                          gname='g_isValidLine', imports_last=True, deps=['V_checkTooFewPoints'],
                          consts={'MIN_SIZE_LINESTRING': 'geos::operation::valid::IsValidOp::MIN_SIZE_LINESTRING'}),
    'V_isValidRing': dict(src=IVO, qual='geos::operation::valid::IsValidOp::isValid', nparams=1, ptypes=['LinearRing'], imports=Q,
                          gname='g_isValidRing', imports_last=True, deps=['V_checkRingClosed', 'V_checkRingPointSize'],
                          aliases={'m_checkRingClosed_1': 'g_checkRingClosed', 'm_checkRingPointSize_1': 'g_checkRingPointSize'},
                          virtuals={'m_checkRingSimple_1': 'ivost -> seq -> ivost'}),
}
