"""C18 units: the Douglas-Peucker core of src/simplify/DouglasPeuckerLineSimplifier.cpp.
simplifySection is a void member with direct self recursion (open recursion on fuel), a counted search loop over pts[k]
with seg.distance(pts[k]), the comparison with distanceTolerance, the counted loop writing usePt[k] = false and the two
recursive calls.  Meaning of the abstract names: C18/GenPreludeDP.v (object state = record of the point list, the usePt
marks and the tolerance; a `double` holding a distance is represented by its exact SQUARE as a rational num/den, the
reading under which C18/DPDefs.v was written).  C18/DPGen.v proves the generated function equal to the hand model `kept`."""
DP = 'src/simplify/DouglasPeuckerLineSimplifier.cpp'
UNITS = {
    'DP_simplifySection': dict(src=DP, qual='geos::simplify::DouglasPeuckerLineSimplifier::simplifySection', nparams=2,
                               imports=['C18.GenPreludeDP'], imports_last=True, gname='g_simplifySection', void_selfrec=True),
}
