"""C04 units (tie G): the hot-pixel / segment test of snap rounding with doubles read as integers in HALF pixel units
(coq/theories/C04/GenPreludeHP.v: the literal 0.5 is one unit), and PrecisionModel::makePrecise at binary64
(Lib.GenPreludeF + coq/theories/C04/GenPreludePM.v: the object is the record of its three members, util::round is the
hand model of java_math_round)."""
HP = 'src/noding/snapround/HotPixel.cpp'
PM = 'src/geom/PrecisionModel.cpp'
UNITS = {
    'HP_intersectsScaled': dict(src=HP, qual='geos::noding::snapround::HotPixel::intersectsScaled', nparams=4, imports=['C04.GenPreludeHP'],
                                gname='g_intersectsScaled', consts={'TOLERANCE': 'geos::noding::snapround::HotPixel::TOLERANCE'}, imports_last=True),
    'HP_intersectsPt': dict(src=HP, qual='geos::noding::snapround::HotPixel::intersects', nparams=1, imports=['C04.GenPreludeHP'],
                            gname='g_intersectsPt', consts={'TOLERANCE': 'geos::noding::snapround::HotPixel::TOLERANCE'}, imports_last=True),
    'PM_makePrecise': dict(src=PM, qual='geos::geom::PrecisionModel::makePrecise', nparams=1, ptypes=['double'], imports=['Lib.GenPreludeF', 'C04.GenPreludePM'],
                           gname='g_makePrecise', imports_last=True,
                           enum_scopes={k: 'geos::geom::PrecisionModel::' + k for k in ('FIXED', 'FLOATING', 'FLOATING_SINGLE')}),
}
