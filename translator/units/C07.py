"""C07 kernel units: ray crossing counter, envelope tests and LineIntersector classification with doubles read as integers
(Lib.GenPreludeZ / C07.PreludeLI: grid theorems), and the whole orientation / DD-intersection path at binary64
(Lib.GenPreludeF: doubles = SpecFloat.spec_float, bit-exact execution and the Flocq-linked filter theorem).
gnames of callees are the names their callers are translated to (m_<method>_<n>, c_<function>_<n>)."""
RCC = 'src/algorithm/RayCrossingCounter.cpp'
DDH = 'src/algorithm/CGAlgorithmsDD.cpp'
DDC = 'src/math/DD.cpp'
ENVC = 'src/geom/Envelope.cpp'
LI = 'src/algorithm/LineIntersector.cpp'
Z = ['Lib.GenPreludeZ']
F = ['Lib.GenPreludeF']
LIP = ['C07.PreludeLI']
ES = {'FAILURE': 'geos::algorithm::CGAlgorithmsDD::FAILURE', 'RIGHT': 'geos::algorithm::CGAlgorithmsDD::RIGHT',
      'LEFT': 'geos::algorithm::CGAlgorithmsDD::LEFT', 'STRAIGHT': 'geos::algorithm::CGAlgorithmsDD::STRAIGHT'}


def dd(name, n, gname, deps=(), src=DDC):
    return dict(src=src, qual='geos::math::' + name, nparams=n, imports=F, gname=gname, deps=list(deps))


UNITS = {
    # --- doubles read as integers
    'K_countSegment': dict(src=RCC, qual='geos::algorithm::RayCrossingCounter::countSegment', nparams=2, imports=Z, gname='g_countSegment'),
    'K_getLocation': dict(src=RCC, qual='geos::algorithm::RayCrossingCounter::getLocation', nparams=0, imports=Z, gname='g_getLocation'),
    'K_envPtZ': dict(src=ENVC, qual='geos::geom::Envelope::intersects', nparams=3, imports=Z, gname='g_envPtZ'),
    'K_envSegZ': dict(src=ENVC, qual='geos::geom::Envelope::intersects', nparams=4, imports=Z, gname='g_envSegZ'),
    'K_collinearZ': dict(src=LI, qual='geos::algorithm::LineIntersector::computeCollinearIntersection', nparams=4, imports=LIP,
                         gname='m_computeCollinearIntersection_4', instantiation=0),
    'K_intersectZ': dict(src=LI, qual='geos::algorithm::LineIntersector::computeIntersect', nparams=4, imports=LIP,
                         gname='g_intersectZ', instantiation=0, deps=['K_collinearZ'], state_calls=['computeCollinearIntersection']),
    # SimplePointInAreaLocator::locatePointInSurface: envelope short-cuts, shell, then the loop over the holes (search loop with returns)
    'K_locatePointInSurface': dict(src='src/algorithm/locate/SimplePointInAreaLocator.cpp',
                                   qual='geos::algorithm::locate::SimplePointInAreaLocator::locatePointInSurface', nparams=2,
                                   imports=['C07.PreludeSurf'], gname='g_locatePointInSurface'),
    # --- binary64: DD arithmetic (overload picked = first definition with that arity in DD.cpp: the (const DD&) forms)
    'K_ddSelfAdd2': dd('DD::selfAdd', 2, 'm_selfAdd_2'),
    'K_ddSelfAdd1': dd('DD::selfAdd', 1, 'm_selfAdd_1', ['K_ddSelfAdd2']),
    'K_ddSelfSub1': dd('DD::selfSubtract', 1, 'm_selfSubtract_1', ['K_ddSelfAdd2']),
    'K_ddSelfMul2': dd('DD::selfMultiply', 2, 'm_selfMultiply_2'),
    'K_ddSelfMul1': dd('DD::selfMultiply', 1, 'm_selfMultiply_1', ['K_ddSelfMul2']),
    'K_ddSelfDiv2': dd('DD::selfDivide', 2, 'm_selfDivide_2'),
    'K_ddSelfDiv1': dd('DD::selfDivide', 1, 'm_selfDivide_1', ['K_ddSelfDiv2']),
    'K_ddAdd': dd('operator+', 2, 'c_opadd_2', ['K_ddSelfAdd1']),
    'K_ddSub': dd('operator-', 2, 'c_opsub_2', ['K_ddSelfSub1']),
    'K_ddMul': dd('operator*', 2, 'c_opmul_2', ['K_ddSelfMul1']),
    'K_ddDiv': dd('operator/', 2, 'c_opdiv_2', ['K_ddSelfDiv1']),
    'K_ddLt': dd('DD::operator<', 1, 'c_oplt_2'),
    'K_ddGt': dd('DD::operator>', 1, 'c_opgt_2'),
    'K_ddDoubleValue': dd('DD::doubleValue', 0, 'm_doubleValue_0'),
    'K_ddToDouble': dd('DD::ToDouble', 0, 'm_ToDouble_0', ['K_ddDoubleValue']),
    # --- binary64: orientation index = filter, else sign of the DD determinant; DD line intersection
    'K_filterF': dict(src=DDH, qual='geos::algorithm::CGAlgorithmsDD::orientationIndexFilter', nparams=6, imports=F,
                      gname='c_orientationIndexFilter_6', enum_scopes=ES, named_literals=True),
    'K_orientationDD': dict(src=DDH, qual='OrientationDD', nparams=1, imports=F, gname='c_OrientationDD_1', enum_scopes=ES,
                            deps=['K_ddLt', 'K_ddGt']),
    'K_orientationIndexF': dict(src=DDH, qual='geos::algorithm::CGAlgorithmsDD::orientationIndex', nparams=6, imports=F,
                                gname='g_orientationIndexF', deps=['K_filterF', 'K_ddAdd', 'K_ddSub', 'K_ddMul', 'K_orientationDD']),
    'K_signOfDet2x2': dict(src=DDH, qual='geos::algorithm::CGAlgorithmsDD::signOfDet2x2', nparams=4, imports=F,
                           gname='g_signOfDet2x2', deps=['K_ddSub', 'K_ddMul', 'K_orientationDD']),
    'K_intersectionF': dict(src=DDH, qual='geos::algorithm::CGAlgorithmsDD::intersection', nparams=4, imports=F,
                            gname='g_intersectionF', deps=['K_ddSub', 'K_ddMul', 'K_ddDiv', 'K_ddToDouble']),
}
for _u in UNITS.values():
    _u['imports_last'] = True      # the preludes redefine eqb / leb / ltb, which Coq.Bool also exports
