"""C06 buffer units (tie G): the fillet generator of OffsetSegmentGenerator (segment-count arithmetic `(int)(total/quantum + 0.5)`,
angle increment, emitted points) and BufferParameters::bufferDistanceError, with `double` read as a real number
(C06.PreludeR: Coq reals; (int) = truncation toward zero = Flocq Ztrunc; sin/cos/fabs = their mathematical meaning)."""
OSG = 'src/operation/buffer/OffsetSegmentGenerator.cpp'
BP = 'src/operation/buffer/BufferParameters.cpp'
R = ['C06.PreludeR']
UNITS = {
    'C06_fillet': dict(src=OSG, qual='geos::operation::buffer::OffsetSegmentGenerator::addDirectedFillet', nparams=5,
                       ptypes=['Coordinate', 'double', 'double', 'int', 'double'], imports=R, gname='g_addDirectedFillet',
                       out_calls={'sinCosSnap': [1, 2]}, imports_last=True,
                       enum_scopes={'CLOCKWISE': 'geos::algorithm::Orientation::CLOCKWISE'}),
    'C06_distErr': dict(src=BP, qual='geos::operation::buffer::BufferParameters::bufferDistanceError', nparams=1, imports=R,
                        gname='g_bufferDistanceError', imports_last=True),
}
