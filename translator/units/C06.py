"""C06 buffer units (tie G): the fillet generator of OffsetSegmentGenerator (segment-count arithmetic `(int)(total/quantum + 0.5)`,
angle increment, emitted points) and BufferParameters::bufferDistanceError, with `double` read as a real number
(C06.PreludeR: Coq reals; (int) = truncation toward zero = Flocq Ztrunc; sin/cos/fabs = their mathematical meaning)."""
OSG = 'src/operation/buffer/OffsetSegmentGenerator.cpp'
BP = 'src/operation/buffer/BufferParameters.cpp'
R = ['C06.PreludeR']
BCSB = 'src/operation/buffer/BufferCurveSetBuilder.cpp'
TRI = 'src/geom/Triangle.cpp'
E = ['C06.GenPreludeErode']     # = C08.GenPreludeR (reals, CoordinateXY = pair) + ring / triangle / envelope representation
UNITS = {
    'C06_fillet': dict(src=OSG, qual='geos::operation::buffer::OffsetSegmentGenerator::addDirectedFillet', nparams=5,
                       ptypes=['Coordinate', 'double', 'double', 'int', 'double'], imports=R, gname='g_addDirectedFillet',
                       out_calls={'sinCosSnap': [1, 2]}, imports_last=True,
                       enum_scopes={'CLOCKWISE': 'geos::algorithm::Orientation::CLOCKWISE'}),
    'C06_distErr': dict(src=BP, qual='geos::operation::buffer::BufferParameters::bufferDistanceError', nparams=1, imports=R,
                        gname='g_bufferDistanceError', imports_last=True),
    # ---- the decisions that DROP a ring from a negative / hole-side buffer (read over the reals, C06/GenPreludeErode.v)
    'C06_envWidth': dict(src=BCSB, qual='geos::geom::Envelope::getWidth', nparams=0, imports=E, imports_last=True, gname='m_getWidth_0'),
    'C06_envHeight': dict(src=BCSB, qual='geos::geom::Envelope::getHeight', nparams=0, imports=E, imports_last=True, gname='m_getHeight_0'),
    'C06_inCentre': dict(src=TRI, qual='geos::geom::Triangle::inCentre', nparams=1, imports=E, imports_last=True, gname='m_inCentre_1',
                         deps=['C08_coordDist'], returns_param='result', param_types={'result': 'rpt'}),
    'C06_triEroded': dict(src=BCSB, qual='geos::operation::buffer::BufferCurveSetBuilder::isTriangleErodedCompletely', nparams=2, imports=E,
                          imports_last=True, gname='g_isTriangleErodedCompletely', deps=['C06_inCentre', 'C08_ptSeg'],
                          out_member_calls={'inCentre': [0]}, aliases={'c_pointToSegment_3': 'g_pointToSegment'}),
    'C06_ringEroded': dict(src=BCSB, qual='geos::operation::buffer::BufferCurveSetBuilder::isRingFullyEroded', nparams=4,
                           ptypes=['CoordinateSequence', 'Envelope', 'bool', 'double'], imports=E, imports_last=True,
                           gname='g_isRingFullyEroded', deps=['C06_envWidth', 'C06_envHeight', 'C06_triEroded'],
                           aliases={'m_isTriangleErodedCompletely_2': '(fun _ : unit => g_isTriangleErodedCompletely)'}),
}
