"""C15 units: the packing arithmetic of include/geos/index/strtree/TemplateSTRtree.h (class template TemplateSTRtreeImpl; the
dependent pattern is translated, it does not depend on the template arguments).  Semantics of the generated text is
supplied by C15/GenPreludeSTR.v: a `double` is one of  integer | quotient of two integers | square root of an integer,
std::ceil is the exact ceiling of that value (the reading under which C15/STRSize.v was proved)."""
H = 'src/algorithm/locate/IndexedPointInAreaLocator.cpp'      # a translation unit that includes TemplateSTRtree.h
Q = 'geos::index::strtree::TemplateSTRtreeImpl::'
def u(name, n, **kw):
    d = dict(src=H, qual=Q + name, nparams=n, imports=['C15.GenPreludeSTR'], imports_last=True)
    d.update(kw)
    return d
UNITS = {
    'STR_sliceCount': u('sliceCount', 1),
    'STR_sliceCapacity': u('sliceCapacity', 2),
    'STR_treeSize': u('treeSize', 1, deps=['STR_sliceCount', 'STR_sliceCapacity'], while_fuel='(Z.to_nat v_numLeafNodes)', this_calls=['sliceCount']),
}
