"""C15 units: the packing arithmetic of include/geos/index/strtree/TemplateSTRtree.h (class template TemplateSTRtreeImpl; the
dependent pattern is translated, it does not depend on the template arguments).  Semantics of the generated text is
supplied by C15/GenPreludeSTR.v: a `double` is one of  integer | quotient of two integers | square root of an integer,
std::ceil is the exact ceiling of that value (the reading under which C15/STRSize.v was proved)."""
H = 'src/algorithm/locate/IndexedPointInAreaLocator.cpp'      # a translation unit that includes TemplateSTRtree.h
Q = 'geos::index::strtree::TemplateSTRtreeImpl::'
def u(name, n, **kw):
    d = dict(src=H, qual=Q + name, nparams=n, imports=['C15.GenPreludeSTR'], imports_last=True)
    d.update(kw)
    return d
UNITS = {
    'STR_sliceCount': u('sliceCount', 1),
    'STR_sliceCapacity': u('sliceCapacity', 2),
    'STR_treeSize': u('treeSize', 1, deps=['STR_sliceCount', 'STR_sliceCapacity'], while_fuel='(Z.to_nat v_numLeafNodes)', this_calls=['sliceCount']),
}
# 1-D packed interval R-tree (index/intervalrtree): the pruning test every node applies, the bounds a branch node takes from its
# two children (the constructor's base-class initializer), and the sort key.  Meaning: C15/GenPreludeITV.v (a `double` is an
# integer: only comparisons, min and max are applied to the interval ends, which are exact on all finite doubles; the
# addition inside `compare` is used by the model only as "some order", see C15/ITVProofs.v).
ITVH = 'src/index/intervalrtree/IntervalRTreeBranchNode.cpp'
QI = 'geos::index::intervalrtree::'
UNITS.update({
    'ITV_intersects': dict(src=ITVH, qual=QI + 'IntervalRTreeNode::intersects', nparams=2, imports=['C15.GenPreludeITV'], gname='g_itv_intersects', imports_last=True),
    'ITV_branchBounds': dict(src=ITVH, qual=QI + 'IntervalRTreeBranchNode::IntervalRTreeBranchNode', nparams=2, imports=['C15.GenPreludeITV'],
                             gname='g_itv_branchBounds', imports_last=True, ctor_base_init=True),
    'ITV_compare': dict(src=ITVH, qual=QI + 'IntervalRTreeNode::compare', nparams=2, imports=['C15.GenPreludeITV'], gname='g_itv_compare', imports_last=True),
})

