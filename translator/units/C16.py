"""C16 units: the in-circle predicates of src/triangulate/quadedge/TrianglePredicate.cpp at binary64
(Lib.GenPreludeF: doubles = SpecFloat.spec_float, CoordinateXY = fpt). The error-band form isInCircleRobust is what
IncrementalDelaunayTriangulator (through Vertex::isInCircle) and TriDelaunayImprover call; isInCircleNonRobust is the same
expression without the band. C16/InCircleB64.v proves the generated definition equal to the hand model robust_b64."""
TP = 'src/triangulate/quadedge/TrianglePredicate.cpp'
F = ['Lib.GenPreludeF']
UNITS = {
    'TP_isInCircleRobust': dict(src=TP, qual='geos::triangulate::quadedge::TrianglePredicate::isInCircleRobust', nparams=4, imports=F,
                                gname='g_isInCircleRobust', imports_last=True),
    'TP_isInCircleNonRobust': dict(src=TP, qual='geos::triangulate::quadedge::TrianglePredicate::isInCircleNonRobust', nparams=4, imports=F,
                                   gname='g_isInCircleNonRobust', imports_last=True),
}
