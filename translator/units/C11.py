"""C11 units: the element-count vs remaining-bytes pre-check of the WKB reader"""
UNITS = {
    'C11_minMemSize': dict(src='src/io/WKBReader.cpp', qual='geos::io::WKBReader::minMemSize', nparams=2,
                           imports=['C11.GenPreludeWKB'], gname='gen_minMemSize',
                           enum_scopes={n: 'geos::geom::' + n for n in (
                               'GEOS_POINT', 'GEOS_LINESTRING', 'GEOS_LINEARRING', 'GEOS_POLYGON', 'GEOS_MULTIPOINT',
                               'GEOS_MULTILINESTRING', 'GEOS_MULTIPOLYGON', 'GEOS_GEOMETRYCOLLECTION', 'GEOS_CIRCULARSTRING',
                               'GEOS_COMPOUNDCURVE', 'GEOS_CURVEPOLYGON', 'GEOS_MULTICURVE', 'GEOS_MULTISURFACE')}),
}
