"""C09 units: the byte-order codec of src/io/ByteOrderValues.cpp, which every word of a WKB stream goes through
(WKBWriter::writeInt / writeCoordinate -> putInt / putDouble, ByteOrderDataInStream::readInt / readLong -> getInt / getLong ...).
C09.GenPreludeBO gives the meanings: a buffer `unsigned char*` is a function Z -> Z (index -> byte), buf[i] reads it, buf[i] = e
is a functional update and a put function returns the updated buffer (unit option returns_param); the integral conversions of
the source are kept as cast_u8 / cast_i32 / cast_u32 / cast_i64 (unit option int_model: wrap into the target type, two's
complement) and `<<` wraps into its result type. ENDIAN_BIG / ENDIAN_LITTLE are probed from the header by clang.
getDouble / putDouble are getLong / putLong composed with a memcpy between int64_t and double (not expressible: doubles are
opaque 64-bit words in the C09 model, the memcpy is the identity on them); only the integer part is translated.
C09/BOProofs.v proves the generated functions equal to Lib/Bytes (le/be_bytes, le/be_value) and their round trips."""
BO = 'src/io/ByteOrderValues.cpp'
P = ['C09.GenPreludeBO']
ES = {'ENDIAN_BIG': 'geos::io::ByteOrderValues::ENDIAN_BIG', 'ENDIAN_LITTLE': 'geos::io::ByteOrderValues::ENDIAN_LITTLE'}


def u(name, nparams, put):
    d = dict(src=BO, qual='geos::io::ByteOrderValues::' + name, nparams=nparams, imports=P, imports_last=True, gname='g_' + name,
             enum_scopes=ES, int_model=True)
    if put:
        d['returns_param'] = 'buf'
    return d


UNITS = {
    'BO_getInt': u('getInt', 2, False),
    'BO_getUnsigned': u('getUnsigned', 2, False),
    'BO_getLong': u('getLong', 2, False),
    'BO_putInt': u('putInt', 3, True),
    'BO_putUnsigned': u('putUnsigned', 3, True),
    'BO_putLong': u('putLong', 3, True),
}

# the type word and the SRID word of the writer (src/io/WKBWriter.cpp): flavour-dependent dimension flags (extended: 0x80000000 Z,
# 0x40000000 M, 0x20000000 SRID; ISO: +1000 Z, +2000 M) and the condition under which the SRID is emitted.  C09.GenPreludeWW: the
# writer object is the record of the members these functions read plus the list of words handed to writeInt; the flavour
# enumerators are probed from the source.  C09/WWProofs.v proves the emitted words equal to WKBDefs.type_word / the SRID clause.
WW = 'src/io/WKBWriter.cpp'
WWC = {'wkbExtended': 'geos::io::WKBConstants::wkbExtended', 'wkbIso': 'geos::io::WKBConstants::wkbIso'}
UNITS.update({
    'WW_writeGeometryType': dict(src=WW, qual='geos::io::WKBWriter::writeGeometryType', nparams=2, imports=['C09.GenPreludeWW'], imports_last=True,
                                 gname='g_writeGeometryType', enum_scopes=WWC, int_model=True),
    'WW_writeSRID': dict(src=WW, qual='geos::io::WKBWriter::writeSRID', nparams=1, imports=['C09.GenPreludeWW'], imports_last=True,
                         gname='g_writeSRID', enum_scopes=WWC, int_model=True),
})
