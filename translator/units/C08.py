"""C08 distance units (tie G): the leaf distance functions of geos::algorithm::Distance and the inline helpers they call, with
`double` read as a REAL number (C08.GenPreludeR: Coq reals; + - * / exact; comparisons = the order of R; std::sqrt / std::fabs /
std::min / std::max with their mathematical meaning; CoordinateXY = pair of reals).  binary64 rounding is NOT modelled by these
units (see design/C08.md: the sampled correspondence of props/C08.py bounds it).
gnames of callees are the names their callers are translated to (m_<method>_<n>, c_<function>_<n>)."""
D = 'src/algorithm/Distance.cpp'
R = ['C08.GenPreludeR']


def u(qual, n, gname, deps=(), **kw):
    return dict(src=D, qual=qual, nparams=n, imports=R, imports_last=True, gname=gname, deps=list(deps), **kw)


UNITS = {
    # inline helpers (include/geos/geom/Coordinate.h, Envelope.h), reached through Distance.cpp's includes
    'C08_equals2D': u('geos::geom::CoordinateXY::equals2D', 1, 'm_equals2D_1'),
    'C08_coordEq': u('geos::geom::operator==', 2, 'c_opeq_2', ['C08_equals2D'], ptypes=['CoordinateXY', 'CoordinateXY']),
    'C08_coordDist': u('geos::geom::CoordinateXY::distance', 1, 'm_distance_1'),
    'C08_envSeg': u('geos::geom::Envelope::intersects', 4, 'c_intersects_4'),
    # geos::algorithm::Distance
    'C08_ptSeg': u('geos::algorithm::Distance::pointToSegment', 3, 'g_pointToSegment', ['C08_coordEq', 'C08_coordDist']),
    'C08_ptLinePerp': u('geos::algorithm::Distance::pointToLinePerpendicular', 3, 'g_pointToLinePerpendicular'),
    'C08_segSeg': u('geos::algorithm::Distance::segmentToSegment', 4, 'g_segmentToSegment', ['C08_coordEq', 'C08_envSeg', 'C08_ptSeg'],
                    aliases={'c_pointToSegment_3': 'g_pointToSegment'}),
}
