"""C19 units.
LR_compareLocationValues: the location order of linear referencing (LinearLocation::compareLocationValues, static six-argument
form), with the indices and the fractions read as integers (Lib.GenPreludeZ): the branch structure is what the model's cmp_loc
is proved equal to.
All other units: the leaf arithmetic of linear referencing with `double` read as a REAL number (C19.GenPreludeLR = C08.GenPreludeR
+ LineSegment / LinearLocation / LengthIndexedLine objects); binary64 rounding is not modelled by them (the sampled
correspondence of props/C19.py bounds it).  The C08 units C08_equals2D, C08_coordEq, C08_coordDist, C08_ptSeg are reused as
callees (operator== on coordinates, CoordinateXY::distance, Distance::pointToSegment)."""
LL = 'src/linearref/LinearLocation.cpp'
LS = 'src/geom/LineSegment.cpp'
LP = 'src/linearref/LengthIndexOfPoint.cpp'
LI = 'src/linearref/LengthIndexedLine.cpp'
R = ['C19.GenPreludeLR']


def r(src, qual, n, gname, deps=(), **kw):
    return dict(src=src, qual=qual, nparams=n, imports=R, imports_last=True, gname=gname, deps=list(deps), **kw)


UNITS = {
    'LR_compareLocationValues': dict(src=LL, qual='geos::linearref::LinearLocation::compareLocationValues', nparams=6,
                                     imports=['Lib.GenPreludeZ'], gname='g_compareLocationValues', imports_last=True),
    # geos::geom::LineSegment (LineSegment.cpp and the inline members of LineSegment.h reached through its includes)
    'LR_projectionFactor': r(LS, 'geos::geom::LineSegment::projectionFactor', 1, 'm_projectionFactor_1', ['C08_coordEq']),
    'LR_segLength': r(LS, 'geos::geom::LineSegment::getLength', 0, 'm_getLength_0', ['C08_coordDist']),
    'LR_segDistance': r(LS, 'geos::geom::LineSegment::distance', 1, 'g_segDistance', ['C08_ptSeg'], ptypes=['CoordinateXY'],
                        aliases={'c_pointToSegment_3': 'g_pointToSegment'}),
    # geos::linearref::LengthIndexOfPoint
    'LR_segmentNearestMeasure': r(LP, 'geos::linearref::LengthIndexOfPoint::segmentNearestMeasure', 3, 'g_segmentNearestMeasure',
                                  ['LR_projectionFactor', 'LR_segLength']),
    # geos::linearref::LinearLocation (member forms)
    'LR_compareTo': r(LL, 'geos::linearref::LinearLocation::compareTo', 1, 'g_compareTo', param_types={'other': 'rloc'}),
    'LR_isOnSameSegment': r(LL, 'geos::linearref::LinearLocation::isOnSameSegment', 1, 'g_isOnSameSegment', param_types={'loc': 'rloc'}),
    'LR_isVertex': r(LL, 'geos::linearref::LinearLocation::isVertex', 0, 'g_isVertex'),
    'LR_normalize': r(LL, 'geos::linearref::LinearLocation::normalize', 0, 'g_normalize'),
    # geos::linearref::LengthIndexedLine: the index conventions (negative index = from the end, clamped to [start, end])
    'LR_positiveIndex': r(LI, 'geos::linearref::LengthIndexedLine::positiveIndex', 1, 'm_positiveIndex_1',
                          aliases={'m_getLength_0': 'm_getLength_0g'}),
    'LR_clampIndex': r(LI, 'geos::linearref::LengthIndexedLine::clampIndex', 1, 'g_clampIndex', ['LR_positiveIndex']),
}
