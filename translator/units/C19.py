"""C19 units: the location order of linear referencing (LinearLocation::compareLocationValues, static six-argument form), with the
indices and the fractions read as integers (Lib.GenPreludeZ): the branch structure is what the model's cmp_loc is proved equal to."""
LL = 'src/linearref/LinearLocation.cpp'
UNITS = {
    'LR_compareLocationValues': dict(src=LL, qual='geos::linearref::LinearLocation::compareLocationValues', nparams=6,
                                     imports=['Lib.GenPreludeZ'], gname='g_compareLocationValues', imports_last=True),
}
