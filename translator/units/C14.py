"""Interrupt state machine (C14; read-only reuse by C13). File-scope statics `requested` / `callback` are threaded as state (unit option globals);
process / interrupt may throw (unit option effects: results are `ok st | throw st`, meaning in coq/theories/C14/GenPreludeIntr.v)."""
SRC = 'src/util/Interrupt.cpp'
def u(name, n, **kw):
    d = dict(src=SRC, qual='geos::util::Interrupt::' + name, nparams=n, imports=['C14.GenPreludeIntr'], globals=['requested', 'callback'])
    d.update(kw)
    return d
UNITS = {
    'Intr_request': u('request', 0),
    'Intr_cancel': u('cancel', 0),
    'Intr_check': u('check', 0),
    'Intr_registerCallback': u('registerCallback', 1),
    'Intr_interrupt': u('interrupt', 0, effects=True),
    'Intr_process': u('process', 0, effects=True, effect_calls={'interrupt': 'c_interrupt_0'}, deps=['Intr_interrupt']),
}
