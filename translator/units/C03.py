"""C03 overlay decision tables (tie G): which labelled locations belong to the result of each op code, the dimension of the
result, the emptiness short-cut, and the OverlayLabel location accessors they read.  Meanings of the primitive names
(label record, geometry abstraction for isEmptyResult) are in coq/theories/C03/GenPreludeOv.v."""
ONG = 'src/operation/overlayng/OverlayNG.cpp'
OU = 'src/operation/overlayng/OverlayUtil.cpp'
OLH = 'include/geos/operation/overlayng/OverlayLabel.h'
OLC = 'src/operation/overlayng/OverlayLabel.cpp'
P = ['C03.GenPreludeOv']
NS = 'geos::operation::overlayng::'
OPS = {k: NS + 'OverlayNG::' + k for k in ('INTERSECTION', 'UNION', 'DIFFERENCE', 'SYMDIFFERENCE')}       # static constexpr int
LBL = {k: NS + 'OverlayLabel::' + k for k in ('DIM_UNKNOWN', 'DIM_NOT_PART', 'DIM_LINE', 'DIM_BOUNDARY', 'DIM_COLLAPSE')}
LBL.update({k: 'geos::geom::Position::' + k for k in ('ON', 'LEFT', 'RIGHT')})
LC = {'LOC_UNKNOWN': NS + 'OverlayLabel::LOC_UNKNOWN'}

UNITS = {
    'OV_isResultOfOp': dict(src=ONG, qual=NS + 'OverlayNG::isResultOfOp', nparams=3, imports=P, gname='c_isResultOfOp_3', consts=OPS),
    'OV_getLocation1': dict(src=ONG, qual=NS + 'OverlayLabel::getLocation', nparams=1, imports=P, gname='m_getLocation_1', enum_scopes=LBL),
    'OV_isResultOfOpPoint': dict(src=ONG, qual=NS + 'OverlayNG::isResultOfOpPoint', nparams=2, imports=P, gname='c_isResultOfOpPoint_2',
                                 deps=['OV_getLocation1', 'OV_isResultOfOp'], consts=OPS),
    'OV_resultDimension': dict(src=OU, qual=NS + 'OverlayUtil::resultDimension', nparams=3, imports=P, gname='c_resultDimension_3', consts=OPS),
    'OV_isEmptyResult': dict(src=OU, qual=NS + 'OverlayUtil::isEmptyResult', nparams=4, imports=P, gname='c_isEmptyResult_4', consts=OPS),
    'OV_getLocation3': dict(src=OLC, qual=NS + 'OverlayLabel::getLocation', nparams=3, imports=P, gname='m_getLocation_3', enum_scopes=LBL, consts=LC),
    'OV_isBoundary1': dict(src=ONG, qual=NS + 'OverlayLabel::isBoundary', nparams=1, imports=P, gname='m_isBoundary_1', enum_scopes=LBL),
    'OV_getLineLocation1': dict(src=ONG, qual=NS + 'OverlayLabel::getLineLocation', nparams=1, imports=P, gname='m_getLineLocation_1', enum_scopes=LBL),
    'OV_getLocationBoundaryOrLine': dict(src=ONG, qual=NS + 'OverlayLabel::getLocationBoundaryOrLine', nparams=3, imports=P,
                                         gname='m_getLocationBoundaryOrLine_3', deps=['OV_isBoundary1', 'OV_getLocation3', 'OV_getLineLocation1'], enum_scopes=LBL),
}
