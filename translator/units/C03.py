"""C03 overlay decision tables (tie G): which labelled locations belong to the result of each op code, the dimension of the
result, the emptiness short-cut, and the OverlayLabel location accessors they read.  Meanings of the primitive names
(label record, geometry abstraction for isEmptyResult) are in coq/theories/C03/GenPreludeOv.v."""
ONG = 'src/operation/overlayng/OverlayNG.cpp'
OU = 'src/operation/overlayng/OverlayUtil.cpp'
OLH = 'include/geos/operation/overlayng/OverlayLabel.h'
OLC = 'src/operation/overlayng/OverlayLabel.cpp'
P = ['C03.GenPreludeOv']
NS = 'geos::operation::overlayng::'
OPS = {k: NS + 'OverlayNG::' + k for k in ('INTERSECTION', 'UNION', 'DIFFERENCE', 'SYMDIFFERENCE')}       # static constexpr int
LBL = {k: NS + 'OverlayLabel::' + k for k in ('DIM_UNKNOWN', 'DIM_NOT_PART', 'DIM_LINE', 'DIM_BOUNDARY', 'DIM_COLLAPSE')}
LBL.update({k: 'geos::geom::Position::' + k for k in ('ON', 'LEFT', 'RIGHT')})
LC = {'LOC_UNKNOWN': NS + 'OverlayLabel::LOC_UNKNOWN'}

UNITS = {
    'OV_isResultOfOp': dict(src=ONG, qual=NS + 'OverlayNG::isResultOfOp', nparams=3, imports=P, gname='c_isResultOfOp_3', consts=OPS),
    'OV_getLocation1': dict(src=ONG, qual=NS + 'OverlayLabel::getLocation', nparams=1, imports=P, gname='m_getLocation_1', enum_scopes=LBL),
    'OV_isResultOfOpPoint': dict(src=ONG, qual=NS + 'OverlayNG::isResultOfOpPoint', nparams=2, imports=P, gname='c_isResultOfOpPoint_2',
                                 deps=['OV_getLocation1', 'OV_isResultOfOp'], consts=OPS),
    'OV_resultDimension': dict(src=OU, qual=NS + 'OverlayUtil::resultDimension', nparams=3, imports=P, gname='c_resultDimension_3', consts=OPS),
    'OV_isEmptyResult': dict(src=OU, qual=NS + 'OverlayUtil::isEmptyResult', nparams=4, imports=P, gname='c_isEmptyResult_4', consts=OPS),
    'OV_getLocation3': dict(src=OLC, qual=NS + 'OverlayLabel::getLocation', nparams=3, imports=P, gname='m_getLocation_3', enum_scopes=LBL, consts=LC),
    'OV_isBoundary1': dict(src=ONG, qual=NS + 'OverlayLabel::isBoundary', nparams=1, imports=P, gname='m_isBoundary_1', enum_scopes=LBL),
    'OV_getLineLocation1': dict(src=ONG, qual=NS + 'OverlayLabel::getLineLocation', nparams=1, imports=P, gname='m_getLineLocation_1', enum_scopes=LBL),
    'OV_getLocationBoundaryOrLine': dict(src=ONG, qual=NS + 'OverlayLabel::getLocationBoundaryOrLine', nparams=3, imports=P,
                                         gname='m_getLocationBoundaryOrLine_3', deps=['OV_isBoundary1', 'OV_getLocation3', 'OV_getLineLocation1'], enum_scopes=LBL),
}

# ---- wave 8: the clipping optimisation (RingClipper, a Sutherland-Hodgman pass per box edge) and the depth delta of a ring.
# Doubles are read as RATIONALS (C03.GenPreludeClip: add/sub/mul/div = Qplus/Qminus/Qmult/Qdiv, comparisons decided exactly),
# so the division in intersectionLineX/Y is the exact quotient; binary64 rounding of the quotient is not modelled (the
# correspondence stream compares exactly where the slope is a power of two and within 1e-9 relative otherwise).
RC = 'src/operation/overlayng/RingClipper.cpp'
ENB = 'src/operation/overlayng/EdgeNodingBuilder.cpp'
PC = ['C03.GenPreludeClip']
BOX = {k: NS + 'RingClipper::' + k for k in ('BOX_LEFT', 'BOX_TOP', 'BOX_RIGHT', 'BOX_BOTTOM')}
UNITS.update({
    'RC_isInsideEdge': dict(src=RC, qual=NS + 'RingClipper::isInsideEdge', nparams=2, imports=PC, imports_last=True, gname='m_isInsideEdge_2', consts=BOX),
    'RC_intersectionLineX': dict(src=RC, qual=NS + 'RingClipper::intersectionLineX', nparams=3, imports=PC, imports_last=True, gname='g_intersectionLineX'),
    'RC_intersectionLineY': dict(src=RC, qual=NS + 'RingClipper::intersectionLineY', nparams=3, imports=PC, imports_last=True, gname='g_intersectionLineY'),
    'RC_intersection': dict(src=RC, qual=NS + 'RingClipper::intersection', nparams=4, imports=PC, imports_last=True, gname='m_intersection_4', consts=BOX,
                            deps=['RC_intersectionLineX', 'RC_intersectionLineY'], returns_param='rsltPt', ctor_skip_defaults=True, param_types={'rsltPt': 'rpt'},
                            aliases={'m_intersectionLineX_3': '(fun _ : renv => g_intersectionLineX)', 'm_intersectionLineY_3': '(fun _ : renv => g_intersectionLineY)'}),
    'ENB_computeDepthDelta': dict(src=ENB, qual=NS + 'EdgeNodingBuilder::computeDepthDelta', nparams=2, imports=PC, imports_last=True,
                                  gname='c_computeDepthDelta_2', virtuals={'c_isCCW_1': 'list rpt -> bool'}),
})
