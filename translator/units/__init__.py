"""translation units of cxx2gallina, one module per property (translator/units/<ID>.py defines UNITS: dict name -> unit).
A unit: dict(src=<path under /repo>, qual=<qualified C++ name>, nparams=<int or None>, imports=[<GeosV modules>], deps=[<other unit names>],
             gname=<optional Gallina name>, fuel=<unfoldings for self recursion>, enum_scopes={enumerator: qualified C++ spelling})"""
import importlib, os, pkgutil
UNITS = {}
BY_PROPERTY = {}
for m in pkgutil.iter_modules([os.path.dirname(__file__)]):
    mod = importlib.import_module('translator.units.' + m.name)
    u = getattr(mod, 'UNITS', {})
    dup = set(u) & set(UNITS)
    assert not dup, 'duplicate translator units: %s' % dup
    UNITS.update(u)
    BY_PROPERTY[m.name] = list(u)
    for extra, names in getattr(mod, 'ALSO', {}).items():
        BY_PROPERTY.setdefault(extra, []).extend(names)
