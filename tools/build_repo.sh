#!/bin/bash
# Build /repo's *current working tree* into /verif/.build/<flavour> (rel | asan | tsan).
# Incremental: ninja only recompiles what changed. Serialised by a lock so that
# concurrently running checks do not trample one build tree.
set -e
FL=${1:-rel}
REPO=${VERIF_REPO:-/repo}
ROOT=$(cd "$(dirname "$0")/.." && pwd)
B=$ROOT/.build/$FL
mkdir -p "$ROOT/.build"
exec 9>"$ROOT/.build/.lock.$FL"
flock 9
case $FL in
  rel)  TYPE=RelWithDebInfo; XF="-Wno-error -DGEOS_VERIF" ;;
  asan) TYPE=None; XF="-Wno-error -DGEOS_VERIF -O1 -g1 -fsanitize=address,undefined -fno-sanitize-recover=all -fno-omit-frame-pointer" ;;
  tsan) TYPE=None; XF="-Wno-error -DGEOS_VERIF -O1 -g1 -fsanitize=thread" ;;
  *) echo "unknown flavour $FL" >&2; exit 2 ;;
esac
if [ ! -f "$B/build.ninja" ] || ! grep -q "CMAKE_HOME_DIRECTORY:INTERNAL=$REPO\$" "$B/CMakeCache.txt" 2>/dev/null; then
  rm -rf "$B"
  cmake -G Ninja -S "$REPO" -B "$B" -DCMAKE_BUILD_TYPE=$TYPE \
    -DCMAKE_CXX_FLAGS="$XF" -DCMAKE_C_FLAGS="$XF" \
    -DBUILD_TESTING=OFF -DBUILD_GEOSOP=OFF -DBUILD_BENCHMARKS=OFF -DBUILD_DOCUMENTATION=OFF \
    -DCMAKE_EXPORT_COMPILE_COMMANDS=ON -DGEOS_BUILD_DEVELOPER=OFF >"$B.configure.log" 2>&1 || { cat "$B.configure.log"; exit 3; }
fi
ninja -l 24 -C "$B" geos geos_c >"$B.build.log" 2>&1 || { tail -50 "$B.build.log"; exit 4; }
echo "built $FL: $B"
