#!/bin/bash
# usage: runseed.sh <ID>  -> runs the committed quick check of property ID against /tmp/w7-out/<ID>/patch.diff
ID=$1; cd /verif
VERIF_CLEAN=1 tools/with_patch.sh /tmp/w7-out/$ID/patch.diff ./check $ID quick > .build/work/w7/$ID.log 2>&1
echo "SEED $ID exit=$? violations=$(grep -ac '^VIOLATION' .build/work/w7/$ID.log) concrete=$(grep -a '^VIOLATION' .build/work/w7/$ID.log | grep -vc no-failing-input-found)" >> .build/work/w7/SUMMARY.txt
