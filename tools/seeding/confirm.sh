#!/bin/bash
# usage: confirm.sh <ID> [outdir]   -- lead confirmation of a wave-7 seed in /tmp/w7-base (serialised by lock)
ID=$1; D=${2:-/tmp/w7-out/$ID}
exec 9>/tmp/w7-out/.confirm.lock; flock 9
export CCACHE_DIR=/tmp/w7-ccache CCACHE_BASEDIR=/tmp/w7-base CCACHE_NOHASHDIR=1
cd /tmp/w7-base || exit 9
git checkout -q -- . ; git status --short | grep -v '^??' 
ninja -C _b -j12 > /tmp/w7-out/$ID.build0.log 2>&1 || { echo "BASE BUILD FAILED"; exit 9; }
timeout 900 sh $D/run_demo.sh /tmp/w7-base/_b > /tmp/w7-out/$ID.demo0.log 2>&1; d0=$?
git apply $D/patch.diff || { echo "PATCH DOES NOT APPLY"; exit 9; }
ninja -C _b -j12 > /tmp/w7-out/$ID.build1.log 2>&1; b1=$?
warn=$(grep -c 'warning:' /tmp/w7-out/$ID.build1.log)
timeout 900 sh $D/run_demo.sh /tmp/w7-base/_b > /tmp/w7-out/$ID.demo1.log 2>&1; d1=$?
ctest --test-dir _b -j12 --timeout 900 2>&1 | grep -E "tests passed|^[[:space:]]+[0-9]+ - " > /tmp/w7-out/$ID.ctest1.log
fails=$(grep -E '^[[:space:]]+[0-9]+ - ' /tmp/w7-out/$ID.ctest1.log | awk '{print $3}' | tr '\n' ',')
git checkout -q -- .
ninja -C _b -j12 > /dev/null 2>&1
echo "CONFIRM $ID build_changed=$b1 warnings=$warn demo_unchanged=$d0 demo_changed=$d1 ctest: $(head -1 /tmp/w7-out/$ID.ctest1.log) fails=$fails"
