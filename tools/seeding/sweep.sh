#!/bin/bash
# run every quick check once on the unchanged tree, 4 at a time; summary in .build/work/w7/SWEEP.txt
cd /verif; : > .build/work/w7/SWEEP.txt
run() { id=$1; s=$(date +%s); ./check $id quick > .build/work/w7/sweep_$id.log 2>&1; rc=$?; echo "$id rc=$rc viol=$(grep -ac '^VIOLATION' .build/work/w7/sweep_$id.log) t=$(( $(date +%s) - s ))s $(grep -a 'done:' .build/work/w7/sweep_$id.log | sed 's/.*done: //')" >> .build/work/w7/SWEEP.txt; }
for grp in "C04 C10 C11 C12" "C13 C14 C17 C16" "C19 C20 C07 C09" "C03 C05 C08 C18"; do for id in $grp; do run $id & done; wait; done
echo SWEEP-DONE >> .build/work/w7/SWEEP.txt
