#!/usr/bin/env python3
"""keep.py <ID> : copy a lead-confirmed wave-7 seed into /verif/seeded/<ID>-<n>/ with the confirmation and detection lines"""
import json, os, re, shutil, sys, glob
ID = sys.argv[1]
src = '/tmp/w7-out/' + ID
conf = open('/tmp/w7-out/%s.confirm.log' % ID).read().strip().splitlines()[-1]
assert 'demo_unchanged=0' in conf and 'build_changed=0' in conf and 'demo_changed=0' not in conf, conf
n = max([int(d.split('-')[-1]) for d in glob.glob('/verif/seeded/%s-*' % ID)] + [0]) + 1
if len(sys.argv) > 2: n = int(sys.argv[2])
dst = '/verif/seeded/%s-%d' % (ID, n)
os.makedirs(dst, exist_ok=True)
for f in os.listdir(src):
    if f in ('patch.diff', 'run_demo.sh', 'meta.json') or re.match(r'demo\.(c|cpp|cc)$', f):
        shutil.copy(os.path.join(src, f), dst)
m = json.load(open(dst + '/meta.json'))
m['wave'] = 7
m['confirmed_by_lead'] = True
m['lead_confirmation'] = conf.replace('CONFIRM ', '') + ' (two slow xml-robust tests fail on the unchanged tree too under load)'
log = '/verif/.build/work/w7/%s.log' % ID
if os.path.exists(log):
    t = open(log, errors='replace').read()
    v = [l for l in t.splitlines() if l.startswith('VIOLATION')]
    c = [l for l in v if 'no-failing-input-found' not in l]
    cand = [l.split('VIOLATION candidate: ')[1][:160] for l in t.splitlines() if 'VIOLATION candidate' in l][:2]
    m['detected_by'] = ('caught' if v else 'MISSED') + ' by ./check %s quick at the time of seeding: %d VIOLATION lines, %d with a concrete replay; first: %s' % (ID, len(v), len(c), ' | '.join(cand))
json.dump(m, open(dst + '/meta.json', 'w'), indent=1, ensure_ascii=False)
print(dst, m.get('detected_by', '')[:200])
