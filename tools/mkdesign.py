#!/usr/bin/env python3
"""Assemble /verif/DESIGN.md from design/00_head.md, design/C01..C20.md, generated tables (§6 findings from
known_findings.json, §7 seeded changes from seeded/*/meta.json, Appendix A axioms per theorem from the
Properties_<ID>.assumptions files of the last build) and design/90_tail.md."""
import glob, json, os, re, subprocess, sys
ROOT = os.path.dirname(os.path.dirname(os.path.abspath(__file__)))
sys.path.insert(0, ROOT)


def read(p):
    with open(os.path.join(ROOT, p)) as f:
        return f.read()


def esc(s):
    return str(s).replace('|', '\\|').replace('\n', ' ')


def findings():
    d = json.load(open(os.path.join(ROOT, 'known_findings.json')))
    out = ['## 6. Findings on the pinned tree\n',
           'Source: `known_findings.json` (committed; the checks only read it). `fixed` rows name the `fix:` commit in `/repo`',
           'and suppress nothing; `known` rows are matched by the key shown (a predicate on the failing input or call site,',
           'implemented in the owning `props/<ID>.py`), print `KNOWN-FINDING:` when they reproduce, and let any other violation',
           'of the same property through. How each was found is told in the per-property section.\n',
           '| property | id | status | key (known) / commit (fixed) | what fails |', '|---|---|---|---|---|']
    order = sorted(d, key=lambda e: (e['property'], e['status'] != 'fixed', e.get('id', '')))
    for e in order:
        what = e['what']
        what = re.sub(r'^fixed: property=\S+ \S+ ', '', what)
        k = e.get('commit', '') if e['status'] == 'fixed' else json.dumps(e.get('key', ''), ensure_ascii=False)
        out.append('| %s | %s | %s | %s | %s |' % (e['property'], e.get('id', ''), e['status'], esc(k)[:420], esc(what)[:700]))
    nf = len([e for e in d if e['status'] == 'fixed']); nk = len(d) - nf
    return '\n'.join(out) + '\n', len(d), nf, nk


def seeds():
    out = ['## 7. Seeded changes and which check catches them\n',
           'Each change was produced by a fresh sub-agent that saw only the property text and its own scratch worktree, and was',
           'kept only after the lead confirmed by hand that the demonstration passes on the unchanged build, fails with the change,',
           'and the test-suite still passes (`seeded/<id>/meta.json: ran`). None was ever committed to `/repo`. Detection was',
           'measured with `tools/with_patch.sh seeded/<id>/patch.diff ./check <ID> quick` (the registered quick command against a',
           'bind-mounted copy of `/repo` with the diff applied); "MISSED by the first version" records where a check had to be',
           'strengthened — always by a generator family or clause for the *class* of input, never by the breaker\'s own demo input',
           '(corpus lines taken from a demo are noted as such in the per-property section). `seeded/RESULTS.md` is the last full',
           'measurement: every seeded change against the final checks (exit code, VIOLATION lines, concrete replays).\n',
           '| seed | what the change breaks | needs, to manifest | caught by |', '|---|---|---|---|']
    n = 0
    metas = [(os.path.basename(os.path.dirname(p)), json.load(open(p))) for p in sorted(glob.glob(os.path.join(ROOT, 'seeded/*/meta.json')))]
    missed = [s for s, m in metas if str(m.get('detected_by', '')).upper().startswith('MISSED') or 'MISSED by the first version' in str(m.get('detected_by', ''))]
    thin = [s for s, m in metas if 'no-failing-input-found' in str(m.get('detected_by', '')) or 'proof break only' in str(m.get('detected_by', '')) or 'correspondence break only' in str(m.get('detected_by', ''))]
    out.insert(-2, 'Seven waves of breaker agents produced %d confirmed changes. %d of them were MISSED by the check as it stood when the change arrived'
                   ' (%s); each miss was closed by strengthening the check for the class of input and re-measured, and every change in the table is now'
                   ' caught with a concrete replay by the registered quick command. %d were at first caught only as a broken proof / correspondence'
                   ' without a failing input (%s) and now have concrete replays as well.\n'
               % (len(metas), len(missed), ', '.join(missed), len(thin), ', '.join(thin) or 'none'))
    for s, m in metas:
        n += 1
        out.append('| %s | %s | %s | %s |' % (s, esc(m.get('what_it_breaks', ''))[:520], esc(m.get('needs_to_manifest', ''))[:380],
                                             esc(m.get('detected_by', 'not yet measured'))[:520]))
    return '\n'.join(out) + '\n', n


def axioms():
    out = ['## Appendix A. Axioms per property theorem\n',
           'As printed by `Print Assumptions` under each theorem of `Properties_<ID>.v` in the last build (the check parses the same',
           'output on every run and fails on anything outside the whitelist of §3). `PrimInt63.*` / `Uint63.*` are the stdlib\'s',
           '63-bit integer primitives and their specification axioms, brought in by the `interval` tactic.\n',
           '| property | theorem | axioms |', '|---|---|---|']
    for i in range(1, 21):
        pid = 'C%02d' % i
        v = os.path.join(ROOT, 'coq/theories/Properties_%s.v' % pid)
        a = os.path.join(ROOT, 'coq/theories/Properties_%s.assumptions' % pid)
        if not (os.path.exists(v) and os.path.exists(a)):
            out.append('| %s | (no assumptions file from the last build) | |' % pid); continue
        names = re.findall(r'^Print Assumptions\s+([A-Za-z0-9_\']+)', open(v).read(), re.M)
        blocks, cur = [], None
        for line in open(a):
            if line.startswith('Closed under the global context'):
                blocks.append([]); cur = None
            elif line.startswith('Axioms:'):
                cur = []; blocks.append(cur)
            elif cur is not None:
                m = re.match(r'^([A-Za-z_][A-Za-z0-9_.\']*)', line)
                if m and not line.startswith(' '):
                    cur.append(m.group(1))
        for k, nm in enumerate(names):
            ax = blocks[k] if k < len(blocks) else None
            if ax is None:
                t = '?'
            elif not ax:
                t = 'closed'
            else:
                prim = [x for x in ax if x.startswith(('PrimInt63.', 'Uint63.'))]
                rest = [x for x in ax if x not in prim]
                t = ', '.join('`%s`' % x for x in rest) + ((' + %d `PrimInt63.*`/`Uint63.*`' % len(prim)) if prim else '')
            out.append('| %s | `%s` | %s |' % (pid, nm, t))
    return '\n'.join(out) + '\n'


def main():
    from translator.units import BY_PROPERTY
    units = {k: len(v) for k, v in BY_PROPERTY.items() if k != 'C02'}
    head = read('design/00_head.md')
    ftab, n_all, n_fixed, n_known = findings()
    stab, n_seeds = seeds()
    try:
        ncommits = int(subprocess.run("git -C /repo log --oneline | grep -c ' fix:'", shell=True, capture_output=True, text=True).stdout.strip())
    except Exception:
        ncommits = 0
    rep = {'{{N_UNITS}}': str(sum(units.values())),
           '{{UNITS_BY_PROP}}': ', '.join('%s %d' % (('C01/C02' if k == 'C01' else k), n) for k, n in sorted(units.items(), key=lambda kv: -kv[1])),
           '{{N_FINDINGS}}': str(n_all), '{{N_FIXED}}': str(n_fixed), '{{N_KNOWN}}': str(n_known), '{{N_FIXCOMMITS}}': str(ncommits)}
    for k, v in rep.items():
        head = head.replace(k, v)
    parts = [head]
    for i in range(1, 21):
        p = 'design/C%02d.md' % i
        parts.append(read(p).rstrip() + '\n' if os.path.exists(os.path.join(ROOT, p)) else '### C%02d — (section missing)\n' % i)
    parts.append('\n--------------------------------------------------------------------------\n\n' + ftab)
    parts.append('\n--------------------------------------------------------------------------\n\n' + stab)
    parts.append(read('design/90_tail.md'))
    parts.append('\n--------------------------------------------------------------------------\n\n' + axioms())
    open(os.path.join(ROOT, 'DESIGN.md'), 'w').write('\n'.join(parts))
    print('DESIGN.md: %d findings (%d fixed, %d known), %d seeds, %d units' % (n_all, n_fixed, n_known, n_seeds, sum(units.values())))


if __name__ == '__main__':
    main()
