#!/bin/bash
# usage (cwd = /verif/coq): ../tools/coq_make.sh theories/Properties_C15.vo ...   (no args: everything)
# Full .vo build (never -vos/-vok), make -k so that independent files still build when one proof breaks.
# Only the regeneration of _CoqProject / Makefile.coq is serialised; builds of different targets may run concurrently.
cd "$(dirname "$0")/../coq"
mkdir -p ../.build
(
  flock 8
  { echo "-Q theories GeosV"; echo "-arg -w -arg -notation-overridden,-deprecated-hint-without-locality,-deprecated-instance-without-locality,-ambiguous-paths,-deprecated-hint-rewrite-without-locality"; find theories -name '*.v' | sort; } > _CoqProject.new
  if ! cmp -s _CoqProject.new _CoqProject || [ ! -f Makefile.coq ]; then
    mv _CoqProject.new _CoqProject
    coq_makefile -f _CoqProject -o Makefile.coq >/dev/null
  else rm -f _CoqProject.new; fi
) 8>../.build/.lock.coqmake
T=${COQ_MAKE_TIMEOUT:-1500}
if [ $# -eq 0 ]; then
  timeout $T make -f Makefile.coq -k -j16 -l 24 2>&1; rc=$?
else
  timeout $T make -f Makefile.coq -k -j8 -l 24 "$@" 2>&1; rc=$?
fi
[ $rc -ne 0 ] && exit $rc
mkdir -p ../.build/work
for t in "$@"; do
  case $t in theories/Properties_*.vo)
    v=${t%.vo}.v
    timeout 600 coqc -Q theories GeosV -w -notation-overridden -o ../.build/work/$(basename $t) $v > ${t%.vo}.assumptions 2>&1 || { cat ${t%.vo}.assumptions; exit 1; } ;;
  esac
done
exit 0
