#!/bin/bash
# usage: tools/with_patch.sh <patch.diff> <command...>      e.g.  tools/with_patch.sh m.diff ./check C15 quick
# Runs the command against a MUTATED COPY of the library without touching the real /repo or /verif:
#   /tmp/verif-mut.XXXXXX/repo  = copy of /repo's working tree (mtimes preserved) + the patch
#   /tmp/verif-mut.XXXXXX/verif = copy of /verif including its build trees
# and bind-mounts the two copies over /repo and /verif inside a private mount namespace (unshare -m), so that all
# paths are the usual ones and ninja / make rebuild only what the patch touched (seconds to a few minutes).
# Several mutation runs may go on in parallel. Replay files are copied to /verif/.build/work/mut-replays/.
# VERIF_CLEAN=1: the copy of /verif is reset to the committed HEAD (tracked files restored, untracked source files removed).
# Exit status = that of the command.
P=$(readlink -f "$1"); shift
W=$(mktemp -d /tmp/verif-mut.XXXXXX)
trap 'rm -rf "$W"' EXIT
mkdir -p "$W/repo" "$W/verif"
rsync -a --exclude _build --exclude .git /repo/ "$W/repo/"
( cd "$W/repo" && git apply --unsafe-paths "$P" 2>/dev/null || patch -p1 -s < "$P" ) || { echo "with_patch: patch does not apply to /repo" >&2; exit 98; }
rsync -a --exclude replays --exclude .git --exclude '.build/work/mut-replays' /verif/ "$W/verif/"
if [ -n "$VERIF_CLEAN" ]; then   # judge with the COMMITTED /verif (builders may be editing the working tree): restore tracked files, drop untracked ones
  for f in $(git -C /verif diff --name-only HEAD); do mkdir -p "$(dirname "$W/verif/$f")"; git -C /verif show "HEAD:$f" > "$W/verif/$f" 2>/dev/null || rm -f "$W/verif/$f"; done
  git -C /verif ls-files --others --exclude-standard | while read -r f; do rm -f "$W/verif/$f"; done
fi
unshare -m bash -c 'mount --bind "$0/repo" /repo && mount --bind "$0/verif" /verif && cd /verif && VERIF_HAVE_REPO_LOCK=1 exec "$@"' "$W" "$@"; rc=$?
mkdir -p /verif/.build/work/mut-replays; cp -r "$W/verif/replays/." /verif/.build/work/mut-replays/ 2>/dev/null
exit $rc
