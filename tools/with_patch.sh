#!/bin/bash
# usage: tools/with_patch.sh <patch.diff> <command...>
# Applies a patch to /repo under an exclusive lock (all ./check runs take the same lock shared), runs the command,
# and restores /repo's working tree whatever happens. Exit status = that of the command.
P=$(readlink -f "$1"); shift
ROOT=$(cd "$(dirname "$0")/.." && pwd)
mkdir -p "$ROOT/.build"
exec 7>"$ROOT/.build/.lock.repo-mutation"
flock 7
if ! git -C /repo diff --quiet; then echo "with_patch: /repo working tree is dirty, refusing" >&2; exit 99; fi
git -C /repo apply "$P" || { echo "with_patch: patch does not apply" >&2; exit 98; }
VERIF_HAVE_REPO_LOCK=1 "$@"; rc=$?
git -C /repo checkout -- . ; git -C /repo clean -fdq -- src include capi 2>/dev/null
exit $rc
