#!/bin/bash
# usage: tools/with_patch.sh <patch.diff> <command...>      e.g.  tools/with_patch.sh m.diff ./check C15 quick
# Runs the command against a MUTATED COPY of the library, without touching /repo or /verif:
#   scratch dir /tmp/verif-mut.XXXXXX/{repo = git worktree of /repo HEAD + patch, verif = copy of /verif without .build}
# The command runs with cwd = the copied /verif and VERIF_REPO pointing at the patched tree, so every check builds the
# mutated library into its own .build (full build: 1-3 min per flavour). Several mutation runs may go on in parallel.
# Replay files of the run are copied to /verif/.build/work/mut-replays/. Exit status = that of the command.
P=$(readlink -f "$1"); shift
ROOT=$(cd "$(dirname "$0")/.." && pwd)
W=$(mktemp -d /tmp/verif-mut.XXXXXX)
cleanup() { git -C /repo worktree remove --force "$W/repo" >/dev/null 2>&1; rm -rf "$W"; git -C /repo worktree prune >/dev/null 2>&1; }
trap cleanup EXIT
git -C /repo worktree add -q --detach "$W/repo" HEAD || { echo "with_patch: cannot create worktree" >&2; exit 97; }
git -C "$W/repo" apply "$P" || { echo "with_patch: patch does not apply to /repo HEAD" >&2; exit 98; }
mkdir -p "$W/verif"
rsync -a --exclude .build --exclude replays --exclude .git "$ROOT/" "$W/verif/"
cd "$W/verif"
VERIF_REPO="$W/repo" VERIF_HAVE_REPO_LOCK=1 "$@"; rc=$?
mkdir -p "$ROOT/.build/work/mut-replays"; cp -r "$W/verif/replays/." "$ROOT/.build/work/mut-replays/" 2>/dev/null
exit $rc
