#!/usr/bin/env python3
"""writes MANIFEST.json from props/registry.py (single source of truth for claimed checks and not_applicable)"""
import json, os, sys
ROOT = os.path.dirname(os.path.dirname(os.path.abspath(__file__)))
sys.path.insert(0, ROOT)
from props.registry import CHECKS, NOT_YET, HOOK_COMMITS
ids = [json.loads(l)['id'] for l in open(os.path.join(ROOT, 'properties.jsonl'))]
checks = []
for pid in ids:
    if pid in CHECKS:
        c = CHECKS[pid]
        checks.append(dict(property_id=pid, quick_cmd='./check %s quick' % pid, thorough_cmd='./check %s thorough' % pid,
                           evidence_file='/verif/evidence/%s.json' % pid, replay_cmd_template='./check %s --replay {path}' % pid,
                           engine='coq+corr-' + pid,
                           level_claimed=dict(category='proof', text=c['text'], design_ref=c.get('design_ref', 'DESIGN.md section 5 ' + pid)),
                           level_note=c['note'], technique=c['technique']))
na = [dict(property_id=pid, reason=NOT_YET[pid]) for pid in ids if pid not in CHECKS]
m = dict(version=1, setup_cmd='./setup.sh',
         hooks=dict(guard='GEOS_VERIF', enable='cmake -DCMAKE_CXX_FLAGS=-DGEOS_VERIF (tools/build_repo.sh builds /repo into /verif/.build/{rel,asan,tsan} with it)',
                    baseline_off_cmd='cmake --build /repo/_build -j16 && ctest --test-dir /repo/_build -j8 --timeout 900',
                    source_commits=HOOK_COMMITS, add_only=True),
         engines=[dict(name='coq', path='/verif/coq', serves_properties=sorted(CHECKS), kind_free_text='Coq 8.16.1 development: models, theorems, Print Assumptions (full .vo build)'),
                  dict(name='cxx2gallina', path='/verif/translator/cxx2gallina.py', serves_properties=sorted(p for p in CHECKS if CHECKS[p].get('translated')), kind_free_text='clang JSON AST -> Gallina translator, regenerates coq/theories/Gen on every run'),
                  dict(name='correspondence', path='/verif/harness', serves_properties=sorted(CHECKS), kind_free_text='extracted OCaml models + C++ harnesses linked against the library built from /repo working tree')],
         checks=checks, not_applicable=na,
         notes='Technique: machine-checked proof in Coq. See DESIGN.md. Known findings: known_findings.json.')
json.dump(m, open(os.path.join(ROOT, 'MANIFEST.json'), 'w'), indent=1)
print('MANIFEST.json: %d checks, %d not_applicable' % (len(checks), len(na)))
