"""Shared machinery of the /verif checks.

A check is  ./check <ID> quick|thorough [--replay file]  ->  props/<ID>.py : run(ctx)

Verdict protocol (DESIGN.md 2.7):
  * proof obligations  (translator units, Coq build of Properties_<ID>.vo, Print Assumptions whitelist)
  * correspondence     (model vs implementation on generated cases)
  * property clauses evaluated directly on the implementation
A broken proof / correspondence triggers a search for a failing input; if none is found the
violation is still reported with `no-failing-input-found`.
"""
import fcntl, hashlib, json, os, random, re, shutil, subprocess, sys, time

ROOT = os.path.dirname(os.path.dirname(os.path.abspath(__file__)))
REPO = os.environ.get('VERIF_REPO', '/repo')
COQ = os.path.join(ROOT, 'coq')
BUILD = os.path.join(ROOT, '.build')
WORK = os.path.join(BUILD, 'work')
NPROC = os.cpu_count() or 4

AXIOM_WHITELIST = {
    # stdlib real-number axioms (Reals, Flocq, Coquelicot, Interval)
    'ClassicalDedekindReals.sig_forall_dec', 'ClassicalDedekindReals.sig_not_dec',
    'FunctionalExtensionality.functional_extensionality_dep', 'Classical_Prop.classic',
    # stdlib logical axioms possibly brought by Program/Equations
    'Eqdep.Eq_rect_eq.eq_rect_eq', 'ProofIrrelevance.proof_irrelevance', 'JMeq.JMeq_eq',
    'PropExtensionality.propositional_extensionality',
}
AXIOM_PREFIX_WHITELIST = ('Uint63.', 'PrimInt63.', 'Uint63Axioms.', 'Coq.Numbers.Cyclic.Int63.')


def sh(cmd, timeout=None, cwd=None, env=None, input=None):
    """run a command (list or string); returns (rc, stdout+stderr). rc = -9 on timeout."""
    try:
        p = subprocess.run(cmd, shell=isinstance(cmd, str), cwd=cwd, env=env, input=input,
                           stdout=subprocess.PIPE, stderr=subprocess.STDOUT, timeout=timeout, text=True)
        return p.returncode, p.stdout
    except subprocess.TimeoutExpired as e:
        out = e.stdout or ''
        if isinstance(out, bytes):
            out = out.decode('utf-8', 'replace')
        return -9, out + '\n[timeout after %ss]' % timeout


class Lock:
    def __init__(self, name):
        os.makedirs(BUILD, exist_ok=True)
        self.path = os.path.join(BUILD, '.lock.' + name)

    def __enter__(self):
        self.f = open(self.path, 'w')
        fcntl.flock(self.f, fcntl.LOCK_EX)
        return self

    def __exit__(self, *a):
        fcntl.flock(self.f, fcntl.LOCK_UN)
        self.f.close()


class Ctx:
    def __init__(self, pid, tier, seed, replay=None):
        self.pid, self.tier, self.seed, self.replay = pid, tier, seed, replay
        self.t0 = time.time()
        self.rng = random.Random(seed)
        self.cov = {'evaluations': 0, 'distinct_nontrivial': 0, 'rule': '', 'samples': [],
                    'obligations': 0, 'discharged': 0, 'checker_cmd': '', 'trusted_base': [],
                    'traces_validated_against_impl': 0}
        self.assumptions = []
        self.violations = []      # (replay_path, no_input_found: bool, msg)
        self.known_hits = []      # strings
        self.broken = []          # proof / correspondence breakages awaiting a failing-input search
        self.notes = {}
        self.work = os.path.join(WORK, pid)
        os.makedirs(self.work, exist_ok=True)
        os.makedirs(os.path.join(ROOT, 'evidence'), exist_ok=True)
        os.makedirs(os.path.join(ROOT, 'replays'), exist_ok=True)
        self._distinct = set()
        kf = os.path.join(ROOT, 'known_findings.json')
        self.known = [k for k in json.load(open(kf)) if k['property'] == pid] if os.path.exists(kf) else []

    quick = property(lambda s: s.tier == 'quick')

    def log(self, *a):
        print('[%s %6.1fs]' % (self.pid, time.time() - self.t0), *a, flush=True)

    # ---------------------------------------------------------------- repo build
    def build_repo(self, flavour='rel'):
        t = time.time()
        rc, out = sh([os.path.join(ROOT, 'tools/build_repo.sh'), flavour], timeout=3600)
        self.log('build %s: rc=%d %.0fs' % (flavour, rc, time.time() - t))
        if rc != 0:
            self.broken.append(dict(kind='build', name='repo-build-' + flavour, detail=out[-3000:]))
            return None
        return os.path.join(BUILD, flavour)

    def cxx(self, src, out, flavour='rel', extra=''):
        """compile a harness against the library built from /repo's working tree"""
        b = os.path.join(BUILD, flavour)
        san = {'rel': '-O1', 'asan': '-O1 -g1 -fsanitize=address,undefined -fno-sanitize-recover=all',
               'tsan': '-O1 -g1 -fsanitize=thread'}[flavour]
        cc = 'g++ -std=c++17' if src.endswith(('.cpp', '.cc')) else 'gcc'
        cmd = ('%s %s -DGEOS_VERIF -DUSE_UNSTABLE_GEOS_CPP_API -w -I%s/include -I%s/include -I%s/capi -I%s/harness %s %s -o %s '
               '-L%s/lib -Wl,-rpath,%s/lib -lgeos_c -lgeos -lm -lpthread'
               % (cc, san, REPO, b, b, ROOT, extra, src, out, b, b))
        rc, o = sh(cmd, timeout=600)
        if rc != 0:
            self.broken.append(dict(kind='harness-build', name=os.path.basename(src), detail=o[-3000:]))
            self.log('harness build failed:', o[-1500:])
            return False
        return True

    # ---------------------------------------------------------------- translator
    def translate(self, unit_names):
        """regenerate Gen/*.v for the named units from /repo's current source. Returns dict name->ok"""
        from translator import cxx2gallina
        res = cxx2gallina.generate(unit_names, REPO, os.path.join(COQ, 'theories', 'Gen'),
                                   os.path.join(BUILD, 'rel'), jobs=NPROC)
        for name, r in res.items():
            if not r['ok']:
                self.broken.append(dict(kind='translator', name=name, detail=r['error']))
                self.log('translator unit FAILED:', name, r['error'][:300])
        self.notes['translator_units'] = {n: r.get('sha', '') for n, r in res.items()}
        return res

    # ---------------------------------------------------------------- coq
    def coq_build(self, prop_file, deps_timeout=1500):
        """full .vo build of theories/<prop_file>.v and everything it depends on.
        returns (ok, assumptions:set). Failure is recorded in self.broken."""
        rc, out = sh(os.path.join(ROOT, 'tools/coq_make.sh') + ' theories/%s.vo' % prop_file, timeout=deps_timeout, cwd=COQ)
        logp = os.path.join(self.work, 'coq_%s.log' % prop_file)
        open(logp, 'w').write(out)
        stats = self._count_obligations(prop_file, out, rc == 0)
        self.cov['checker_cmd'] = 'make -k theories/%s.vo (coqc 8.16.1 full .vo build; kernel-checked Qed) + Print Assumptions' % prop_file
        if rc != 0:
            err = self._coq_error(out)
            self.broken.append(dict(kind='proof', name=err.get('file', prop_file), detail=err.get('text', out[-3000:])))
            self.cov['obligations'] += stats['total']
            self.cov['discharged'] += stats['done']
            self.log('coq build FAILED', err.get('file'), err.get('text', '')[:500])
            return False, set()
        self.cov['obligations'] += stats['total']
        self.cov['discharged'] += stats['done']
        ax = self._assumptions(out, prop_file)
        bad = [a for a in ax if not (a in AXIOM_WHITELIST or a.startswith(AXIOM_PREFIX_WHITELIST))]
        self.cov['trusted_base'] = sorted(set(self.cov['trusted_base']) | ax | {'Coq 8.16.1 kernel', 'vm_compute'})
        if bad:
            self.broken.append(dict(kind='proof', name='Print Assumptions', detail='non-whitelisted axioms: %s' % bad))
            return False, ax
        g = self.hygiene(prop_file)
        if g:
            self.broken.append(dict(kind='proof', name='hygiene gate', detail=g))
            return False, ax
        self.log('coq ok: %d/%d obligations, axioms: %s' % (stats['done'], stats['total'], sorted(ax) or 'none (closed under the global context)'))
        return True, ax

    def _deps(self, prop_file):
        """transitive .v dependencies (inside theories/) of a property file, from coqdep (cached per run)"""
        if not hasattr(self, '_depgraph'):
            rc, out = sh("coqdep -Q theories GeosV $(find theories -name '*.v') 2>/dev/null", cwd=COQ, timeout=300)
            g = {}
            for line in out.splitlines():
                if ':' not in line:
                    continue
                lhs, rhs = line.split(':', 1)
                tgt = [t for t in lhs.split() if t.endswith('.vo')]
                if not tgt:
                    continue
                key = tgt[0][len('theories/'):-3]
                g[key] = [d[len('theories/'):-3] for d in rhs.split() if d.startswith('theories/') and d.endswith('.vo')]
            self._depgraph = g
        seen, todo = set(), [prop_file]
        while todo:
            f = todo.pop()
            if f in seen:
                continue
            seen.add(f)
            todo += self._depgraph.get(f, [])
        return [f for f in seen if os.path.exists(os.path.join(COQ, 'theories', f + '.v'))]

    def _count_obligations(self, prop_file, make_output='', ok=True):
        """obligations = Theorem/Lemma/... statements in the dependency closure; discharged = those in files that were
        (re)built successfully by THIS run: a file named in an error of the make output, and every file that depends on
        it, counts as not discharged even if a stale .vo is lying around"""
        total = done = 0
        pat = re.compile(r'^\s*(?:Local |Global |#\[[^\]]*\]\s*)*(Theorem|Lemma|Corollary|Example|Fact|Remark|Proposition)\s+(\w+)', re.M)
        deps = self._deps(prop_file)
        failed = set()
        if not ok:
            for m in re.finditer(r'File "\./?theories/([^"]+)\.v", line \d+[^\n]*\n(?:[^\n]*\n){0,3}?Error', make_output):
                failed.add(m.group(1))
            for m in re.finditer(r"\*\*\* \[[^\]]*theories/([^\]:]+)\.vo\]", make_output):
                failed.add(m.group(1))
            changed = True
            while changed:          # close under "depends on a failed file"
                changed = False
                for f in deps:
                    if f not in failed and any(d in failed for d in self._depgraph.get(f, [])):
                        failed.add(f); changed = True
            if not failed:
                failed = {prop_file}
        files = {}
        for f in deps:
            p = os.path.join(COQ, 'theories', f + '.v')
            n = len(pat.findall(open(p).read()))
            vo = p + 'o'
            good = f not in failed and os.path.exists(vo) and os.path.getmtime(vo) >= os.path.getmtime(p)
            total += n
            done += n if good else 0
            files[f] = [n, good]
        self.notes.setdefault('coq_files', {}).update(files)
        return dict(total=total, done=done)

    def _coq_error(self, out):
        m = re.search(r'File "\./?([^"]+)", line (\d+), characters[^\n]*\n((?:.*\n){0,25})', out)
        if m:
            return dict(file=m.group(1), text='%s line %s:\n%s' % (m.group(1), m.group(2), m.group(3)))
        return dict(text=out[-3000:])

    def _assumptions(self, out, prop_file):
        """Print Assumptions output captured from the compilation of the property file"""
        logf = os.path.join(COQ, 'theories', prop_file + '.assumptions')
        txt = open(logf).read() if os.path.exists(logf) else out
        self.notes['print_assumptions'] = txt[-4000:]
        ax = set()
        for m in re.finditer(r'^([A-Za-z_][\w.\']*)\s*:', txt, re.M):
            if m.group(1) not in ('Axioms', 'Error', 'Warning', 'File'):
                ax.add(m.group(1))
        return ax

    def hygiene(self, prop_file=None):
        """no Admitted / admit / Axiom / Parameter / ... in the files this property depends on (and none in _CoqProject flags)"""
        files = ['theories/%s.v' % f for f in (self._deps(prop_file) if prop_file else [])] or ['theories']
        pat = r"\b(Admitted|admit|Axiom|Axioms|Parameter|Parameters|Conjecture|Conjectures|Abort All)\b|Unset Guard|Unset Positivity|Unset Universe|bypass_check|type-in-type|impredicative-set|Admit Obligations"
        rc, out = sh(['grep', '-rnE', pat, '--include=*.v'] + files + ['_CoqProject'], cwd=COQ)
        lines = [l for l in out.splitlines() if l.strip() and not re.search(r'\(\*.*hygiene-ok.*\*\)', l)]
        # a Variable / Hypothesis / Context outside any Section declares an axiom
        for f in (files if prop_file else []):
            try:
                txt = open(os.path.join(COQ, f)).read()
            except OSError:
                continue
            out_c, i, lvl = [], 0, 0
            while i < len(txt):
                if txt.startswith('(*', i):
                    lvl += 1; i += 2; continue
                if txt.startswith('*)', i) and lvl > 0:
                    lvl -= 1; i += 2; continue
                if lvl == 0:
                    out_c.append(txt[i])
                i += 1
            depth = 0
            for n, line in enumerate(''.join(out_c).split('\n'), 1):
                st = line.strip()
                if re.match(r'^Section\s+\w+\s*\.', st):
                    depth += 1
                elif re.match(r'^End\s+\w+\s*\.', st) and depth > 0:
                    depth -= 1
                elif depth == 0 and re.match(r'^(Variable|Variables|Hypothesis|Hypotheses|Context)\b', st):
                    lines.append('%s: %s outside a Section: %s' % (f, st.split()[0], st[:80]))
        return '\n'.join(lines[:20]) if lines else ''

    def ocaml_driver(self, pid=None):
        """extract/Extract_<pid>.v (coqc writes x<pid>.ml/.mli into extract/) + ocaml/zutil.inc + ocaml/drv_<pid>.ml -> .build/bin/drv_<pid>"""
        pid = pid or self.pid
        ex = os.path.join(COQ, 'extract')
        mod = 'x' + pid.lower()
        exe_p = os.path.join(BUILD, 'bin', 'drv_' + pid)
        os.makedirs(os.path.dirname(exe_p), exist_ok=True)
        with Lock('coq'):
            rc, out = sh('timeout 900 coqc -Q ../theories GeosV Extract_%s.v' % pid, cwd=ex)
            if rc != 0:
                self.broken.append(dict(kind='extraction', name='Extract_' + pid, detail=out[-2000:]))
                self.log('extraction failed', out[-800:])
                return None
            drv = os.path.join(self.work, 'drv_%s_full.ml' % pid)
            with open(drv, 'w') as f:
                f.write('open %s\n' % (mod[0].upper() + mod[1:]))
                f.write(open(os.path.join(ROOT, 'ocaml', 'zutil.inc')).read())
                f.write(open(os.path.join(ROOT, 'ocaml', 'drv_%s.ml' % pid)).read())
            if os.path.exists(exe_p):
                os.remove(exe_p)
            rc, out = sh('ocamlfind ocamlopt -O3 -w -a -I . %s.mli %s.ml %s -o %s' % (mod, mod, drv, exe_p), cwd=ex, timeout=900)
            if not os.path.exists(exe_p) or rc != 0:
                self.broken.append(dict(kind='extraction', name='drv_%s.ml' % pid, detail=out[-2000:]))
                self.log('ocaml build failed', out[-800:])
                return None
        return exe_p

    # ---------------------------------------------------------------- running cases
    def run_lines(self, argv, lines, timeout=120, env=None, chunk=None, line_timeout=None, max_timeouts=4):
        """feed `lines` to a line-in/line-out process; a crash or time-out is attributed to the line being processed.
        returns a list of output strings, 'CRASH:<rc>:<stderr tail>' or 'TIMEOUT' for the culprit lines.
        line_timeout (opt-in, only for harnesses that flush after every output line): the process is killed when no
        complete output line arrived for that many seconds, so a hang costs line_timeout instead of the batch time-out;
        after max_timeouts hangs the remaining lines are not run ('CRASH:skipped:...')."""
        res = []
        i = 0
        n = len(lines)
        ntimeouts = 0
        while i < n:
            if line_timeout and ntimeouts >= max_timeouts:
                res.extend(['CRASH:skipped:not run after %d time-outs in this stream' % ntimeouts] * (n - i))
                break
            batch = lines[i:i + (chunk or n)]
            if line_timeout:
                outl, rc, err, timed = self._run_stream(argv, batch, timeout, line_timeout, env)
            else:
                try:
                    p = subprocess.run(argv, input='\n'.join(batch) + '\n', stdout=subprocess.PIPE, stderr=subprocess.PIPE,
                                       timeout=timeout, text=True, env=env, errors='replace')
                    outl = p.stdout.split('\n')
                    if outl and outl[-1] == '':
                        outl.pop()
                    rc, err = p.returncode, p.stderr
                    timed = False
                except subprocess.TimeoutExpired as e:
                    so = e.stdout or b''
                    so = so.decode('utf-8', 'replace') if isinstance(so, bytes) else so
                    outl = so.split('\n')
                    if outl and not so.endswith('\n'):
                        outl.pop()          # partial line
                    if outl and outl[-1] == '':
                        outl.pop()
                    rc, err, timed = -9, '', True
            if len(outl) >= len(batch) and not timed:
                res.extend(outl[:len(batch)])
                i += len(batch)
                continue
            # the process died or hung while working on line len(outl) of the batch
            k = min(len(outl), len(batch) - 1)
            res.extend(outl[:k])
            res.append('TIMEOUT' if timed else 'CRASH:%s:%s' % (rc, (err or '')[-600:].replace('\n', ' / ')))
            ntimeouts += 1 if timed else 0
            i += k + 1
        return res

    def _run_stream(self, argv, batch, timeout, line_timeout, env):
        """run one batch, watching the output: returns (complete output lines, rc, stderr, timed_out)"""
        import selectors, tempfile, threading
        errf = tempfile.TemporaryFile()
        p = subprocess.Popen(argv, stdin=subprocess.PIPE, stdout=subprocess.PIPE, stderr=errf, env=env)
        data = ('\n'.join(batch) + '\n').encode()

        def feed():
            try:
                p.stdin.write(data); p.stdin.close()
            except Exception:
                pass
        th = threading.Thread(target=feed, daemon=True); th.start()
        sel = selectors.DefaultSelector(); sel.register(p.stdout, selectors.EVENT_READ)
        buf = b''; t0 = time.time(); last = t0; timed = False
        while True:
            now = time.time()
            if now - t0 > timeout or now - last > line_timeout:
                timed = True; p.kill(); break
            ev = sel.select(timeout=min(1.0, line_timeout))
            if not ev:
                continue
            chunk = os.read(p.stdout.fileno(), 65536)
            if not chunk:
                break
            if b'\n' in chunk:
                last = time.time()
            buf += chunk
        p.wait()
        so = buf.decode('utf-8', 'replace')
        outl = so.split('\n')
        if outl and not so.endswith('\n'):
            outl.pop()
        if outl and outl[-1] == '':
            outl.pop()
        errf.seek(0); err = errf.read().decode('utf-8', 'replace'); errf.close()
        return outl, (-9 if timed else p.returncode), err, timed

    # ---------------------------------------------------------------- bookkeeping
    def count(self, case_key, nontrivial=True):
        self.cov['evaluations'] += 1
        if nontrivial:
            h = hashlib.md5(repr(case_key).encode()).digest()[:8]
            if h not in self._distinct:
                self._distinct.add(h)
                self.cov['distinct_nontrivial'] += 1

    def sample(self, s, cap=6):
        if len(self.cov['samples']) < cap:
            self.cov['samples'].append(s)

    def write_replay(self, name, obj):
        p = os.path.join(ROOT, 'replays', '%s_%s_%d_%s.json' % (self.pid, self.tier, self.seed, name))
        json.dump(obj, open(p, 'w'), indent=1, default=str)
        return p

    def known_match(self, key_pred):
        """return the first 'known' finding whose matcher accepts; matchers are property specific"""
        for k in self.known:
            if k.get('status') == 'known' and key_pred(k):
                return k
        return None

    def violation(self, name, obj, no_input=False, msg=''):
        p = self.write_replay(name, obj)
        self.violations.append((p, no_input, msg))
        self.log('VIOLATION candidate:', msg[:300])
        return p

    def known_hit(self, finding, what=None):
        s = 'KNOWN-FINDING: property=%s %s' % (self.pid, what or finding['what'])
        if s not in self.known_hits:
            self.known_hits.append(s)

    def finish(self):
        # breakages with no concrete failing input found by the property module
        concrete = any(not noin for _, noin, _ in self.violations)
        for b in self.broken:
            if b['kind'] == 'correspondence' and concrete:
                b['resolved'] = True       # the search found concrete failing inputs (reported with their replays)
            if not b.get('resolved'):
                self.violation('broken_' + re.sub(r'\W+', '_', b['name'])[:40],
                               dict(kind=b['kind'], what_no_longer_checks=b['name'], detail=b['detail'],
                                    note='no failing input was found by the search; the property is no longer shown to hold',
                                    rerun='cd /verif && ./check %s %s' % (self.pid, self.tier)),
                               no_input=True, msg='%s %s no longer checks' % (b['kind'], b['name']))
        ev = dict(property_id=self.pid, tier=self.tier, seed=self.seed, level='proof', coverage=self.cov,
                  assumptions=self.assumptions, wall_s=round(time.time() - self.t0, 1), violations=len(self.violations))
        self.cov['known_findings_reproduced'] = self.known_hits
        self.cov['notes'] = self.notes
        if self.cov['discharged'] < self.cov['obligations'] or self.cov['obligations'] == 0:
            # schema: discharged must equal obligations for a proof-level claim; a broken run says so
            self.cov['explanation'] = 'proof obligations not all discharged on this run'
        json.dump(ev, open(os.path.join(ROOT, 'evidence', self.pid + '.json'), 'w'), indent=1, default=str)
        for s in self.known_hits:
            print(s)
        for p, noin, msg in self.violations:
            print('VIOLATION property=%s replay=%s%s' % (self.pid, p, ' no-failing-input-found' if noin else ''))
        self.log('done: %d evaluations, %d distinct non-trivial, %d/%d obligations, %d violations, %d known findings'
                 % (self.cov['evaluations'], self.cov['distinct_nontrivial'], self.cov['discharged'],
                    self.cov['obligations'], len(self.violations), len(self.known_hits)))
        return 1 if self.violations else 0
